//! C04 — commitment signatures bind to the BOLT-3 transaction of the validated content.
//!
//! One group against the Lean model `bolt3` (structured BOLT-3 builder / decoder / entry points):
//!  (i)   `content`: the real LDK-built counterparty commitment (the tx phase 2 signs) is rendered into
//!        the structured form by matching every script_pubkey against scripts the harness builds with its
//!        *own* script builder, re-serialised with the harness' *own* serializer (must give LDK's bytes)
//!        and compared field by field with the Lean `canon` (correspondence);
//!  (ii)  every signature returned by the real phase 1 / phase 2 is verified with secp256k1 under the
//!        channel's funding key against a sighash computed from the canonical bytes, HTLC signatures
//!        against HTLC transactions the harness builds itself;
//!  (iii) structured single-field mutations (`p1 …`, mirrored in the model) and raw byte flips
//!        (`p1raw …`, implementation only) of the transaction and of the witness scripts go to the real
//!        phase 1; whatever it accepts must be byte for byte the canonical tx of the content the signer
//!        recorded as validated (`mutated-tx-signed`);
//!  (iv)  phase-1(canon) and phase-2 signatures are equal (`phase-sig-differs`, `phase-disagree`).
use crate::common::*;
#[path = "c04_bolt3.rs"]
mod bolt3;
#[path = "c04_parse.rs"]
mod parse;
use bolt3::*;
use lightning_signer::lightning::sign::ChannelSigner;
use lightning_signer::bitcoin::absolute::LockTime;
use lightning_signer::bitcoin::bip32::DerivationPath;
use lightning_signer::bitcoin::consensus::{deserialize, serialize as cons_serialize};
use lightning_signer::bitcoin::hashes::{sha256, Hash};
use lightning_signer::bitcoin::secp256k1::{ecdsa::Signature, Message, PublicKey, Secp256k1};
use lightning_signer::bitcoin::sighash::{EcdsaSighashType, SighashCache};
use lightning_signer::bitcoin::transaction::Version;
use lightning_signer::bitcoin::{Amount, Network, OutPoint, ScriptBuf, Sequence, Transaction, TxIn, TxOut, Txid, Witness};
use lightning_signer::channel::{Channel, ChannelId, ChannelSetup, CommitmentType};
use lightning_signer::lightning::types::payment::PaymentHash;
use lightning_signer::node::{Node, NodeServices};
use lightning_signer::persist::Persist;
use lightning_signer::util::clock::StandardClock;
use vls_persist::kvv::memory::MemoryKVVStore;
use vls_persist::kvv::{JsonFormat, KVVPersister};
use lightning_signer::policy::filter::{FilterResult, FilterRule, PolicyFilter};
use lightning_signer::policy::onchain_validator::OnchainValidatorFactory;
use lightning_signer::policy::simple_validator::{make_default_simple_policy, SimpleValidatorFactory};
use lightning_signer::tx::tx::{CommitmentInfo2, HTLCInfo2};
use lightning_signer::util::test_utils::key::{make_test_counterparty_points, make_test_pubkey};
use lightning_signer::util::test_utils::*;
use lightning_signer::bitcoin::blockdata::constants::genesis_block;
use lightning_signer::bitcoin::psbt::Psbt;
use lightning_signer::lightning::ln::chan_utils::{ChannelPublicKeys, TxCreationKeys};
use lightning_signer::lightning::ln::channel_keys::{DelayedPaymentBasepoint, HtlcBasepoint, RevocationBasepoint};
use vls_protocol::model::{Basepoints, Bip32KeyVersion, Htlc as WireHtlc, PubKey, Sha256 as WireSha256};
use vls_protocol::msgs::{self, Message as WireMsg};
use vls_protocol::psbt::PsbtWrapper;
use vls_protocol::serde_bolt::{Array, Octets, WithSize};
use vls_protocol_signer::handler::{Error as HandlerError, Handler, HandlerBuilder, RootHandler};
use std::collections::BTreeMap;
use std::panic::{catch_unwind, AssertUnwindSafe};
use std::sync::Arc;

#[derive(Clone, Debug)]
struct SetupD {
    ctype: char,
    outbound: bool,
    holder_delay: u16,
    cp_delay: u16,
    txid: u8,
    vout: u32,
    chan_value: u64,
    /// 0 default policy (+ safe-type demoted), 1 lenient, 2 lenient + `policy-commitment` demoted
    mode: u8,
    point: u8,
    /// the channel is set up and signed for through the protocol handler (wire messages), not through vls-core
    via: bool,
    /// the channel was first set up with these values and then re-set-up (accepted) with the ones above
    pre: Option<Box<SetupD>>,
}

#[derive(Clone, Debug, PartialEq)]
struct ContentD {
    commit_num: u64,
    feerate: u32,
    to_cs: u64,
    to_bc: u64,
    /// (offered, value, hash id, cltv) in op-line order
    htlcs: Vec<(bool, u64, i64, u32)>,
}

impl ContentD {
    fn lists(&self) -> (Vec<HTLCInfo2>, Vec<HTLCInfo2>) {
        let mk = |h: &(bool, u64, i64, u32)| HTLCInfo2 {
            value_sat: h.1,
            payment_hash: PaymentHash(payment_hash_bytes(h.2)),
            cltv_expiry: h.3,
        };
        (
            self.htlcs.iter().filter(|h| h.0).map(mk).collect(),
            self.htlcs.iter().filter(|h| !h.0).map(mk).collect(),
        )
    }
}

fn ctype_of(c: char) -> CommitmentType {
    match c {
        'l' => CommitmentType::Legacy,
        's' => CommitmentType::StaticRemoteKey,
        'a' => CommitmentType::Anchors,
        _ => CommitmentType::AnchorsZeroFeeHtlc,
    }
}
fn is_anchors(c: char) -> bool { c == 'a' || c == 'z' }
fn ldk_anchors(c: char) -> bool { c == 'z' }

fn policy_for(mode: u8) -> lightning_signer::policy::simple_validator::SimplePolicy {
    let mut p = make_default_simple_policy(Network::Testnet);
    let mut rules = vec![FilterRule::new_warn("policy-channel-safe-type")];
    if mode & 7 >= 1 {
        rules.push(FilterRule { tag: "policy-channel-".into(), is_prefix: true, action: FilterResult::Warn });
        for t in [
            "policy-commitment-fee-range",
            "policy-commitment-htlc-cltv-range",
            "policy-commitment-htlc-inflight-limit",
            "policy-commitment-htlc-count-limit",
            "policy-commitment-htlc-routing-balance",
            "policy-commitment-payment-velocity",
            "policy-routing-balanced",
            "policy-routing-cltv-delta",
            // OnchainValidator: the funding transaction of the harness' channels is never mined
            "policy-commitment-spends-active-utxo",
        ] {
            rules.push(FilterRule::new_warn(t));
        }
    }
    match mode & 7 {
        2 => rules.push(FilterRule::new_warn("policy-commitment")),
        // filters that demote tags C04's hypothesis does not name: the second-stage HTLC controls
        3 => rules.push(FilterRule::new_warn("policy-htlc-other")),
        4 => rules.push(FilterRule { tag: "policy-htlc-".into(), is_prefix: true, action: FilterResult::Warn }),
        // everything demoted (PolicyFilter::new_permissive) except the dust rule, which keeps phase 2 from
        // building HTLC transactions with a negative value
        5 => {
            rules.insert(0, FilterRule::new_error("policy-commitment-outputs-trimmed"));
            // (the version test of decode_commitment_tx is the one filterable decoder check; the model has it unconditional)
            rules.insert(0, FilterRule::new_error("policy-commitment-version"));
            rules.push(FilterRule { tag: "".into(), is_prefix: true, action: FilterResult::Warn });
        }
        // the corners of the filter semantics, all of which leave `policy-commitment` an error:
        // 6: an explicit error rule for the tag *before* a warn rule whose prefix covers it (the first match decides)
        6 => {
            rules.insert(0, FilterRule::new_error("policy-commitment-outputs-trimmed"));
            rules.insert(0, FilterRule::new_error("policy-commitment-version"));
            rules.insert(0, FilterRule::new_error("policy-commitment"));
            rules.push(FilterRule { tag: "policy-commit".into(), is_prefix: true, action: FilterResult::Warn });
        }
        // 7: an exact warn rule for a proper prefix of the tag, and a warn prefix rule that is longer than the tag
        //    (it demotes every specific `policy-commitment-…` control, not the tag itself)
        7 => {
            rules.insert(0, FilterRule::new_error("policy-commitment-outputs-trimmed"));
            rules.insert(0, FilterRule::new_error("policy-commitment-version"));
            rules.push(FilterRule::new_warn("policy-commitmen"));
            rules.push(FilterRule { tag: "policy-commitment-".into(), is_prefix: true, action: FilterResult::Warn });
        }
        _ => {}
    }
    p.filter = PolicyFilter { rules };
    p
}

/// the filter demotes `policy-commitment` (the hypothesis of the "accepts only canon" conjunct fails): the documented
/// semantics of a filter — the first rule that matches the tag (by prefix or exactly) decides, no rule = error —
/// evaluated by the harness itself on the rules it installed
fn nonstrict(mode: u8) -> bool {
    let rules = policy_for(mode).filter.rules;
    let tag = "policy-commitment";
    for r in rules.iter() {
        let m = if r.is_prefix { tag.len() >= r.tag.len() && &tag[..r.tag.len()] == r.tag.as_str() } else { tag == r.tag.as_str() };
        if m { return r.action == FilterResult::Warn; }
    }
    false
}

/// the `filter` op line: the rules of the node's policy filter for the model
fn filter_line(mode: u8) -> String {
    let mut s = String::from("filter");
    for r in policy_for(mode).filter.rules.iter() {
        s += &format!(" {}:{}:{}", if r.is_prefix { "p" } else { "e" }, if r.action == FilterResult::Warn { "w" } else { "e" }, r.tag);
    }
    s
}

fn make_setup(sd: &SetupD) -> ChannelSetup {
    ChannelSetup {
        is_outbound: sd.outbound,
        channel_value_sat: sd.chan_value,
        push_value_msat: 0,
        funding_outpoint: OutPoint { txid: Txid::from_slice(&txid_bytes(sd.txid as i64)).unwrap(), vout: sd.vout },
        holder_selected_contest_delay: sd.holder_delay,
        holder_shutdown_script: None,
        counterparty_points: make_test_counterparty_points(),
        counterparty_selected_contest_delay: sd.cp_delay,
        counterparty_shutdown_script: None,
        commitment_type: ctype_of(sd.ctype),
    }
}

struct Live {
    node: Arc<Node>,
    id: ChannelId,
    persister: Arc<dyn Persist>,
    /// the holder's channel public keys as the harness learnt them (from `GetChannelBasepoints` in handler mode)
    holder: ChannelPublicKeys,
    /// handler mode: the root handler the node lives in
    root: Option<RootHandler>,
}

const WIRE_DBID: u64 = 1;
fn wire_peer() -> [u8; 33] { make_test_pubkey(50).serialize() }

/// channel_type as it goes over the wire (CLN encoding of the BOLT-9 bits, written out by hand:
/// option_static_remotekey = bit 12, option_anchor_outputs = bit 20, option_anchors_zero_fee_htlc_tx = bit 22)
fn wire_channel_type(ctype: char) -> Vec<u8> {
    match ctype {
        'l' => vec![],
        's' => vec![0x10, 0x00],
        'a' => vec![0x10, 0x10, 0x00],
        _ => vec![0x40, 0x10, 0x00],
    }
}

fn wire_pk(p: &PublicKey) -> PubKey { PubKey(p.serialize()) }

fn build_root(persister: Arc<dyn Persist>, mode: u8) -> Result<RootHandler, String> {
    let network = Network::Testnet;
    let mut init = HandlerBuilder::new(network, 0, services(persister, mode), node_seed()).build().map_err(|e| format!("handler build: {:?}", e))?;
    init.handle(WireMsg::HsmdInit(msgs::HsmdInit {
        key_version: Bip32KeyVersion { pubkey_version: 0x0488b21e, privkey_version: 0x0488ade4 },
        chain_params: genesis_block(network).block_hash(),
        encryption_key: None,
        dev_privkey: None,
        dev_bip32_seed: None,
        dev_channel_secrets: None,
        dev_channel_secrets_shaseed: None,
        hsm_wire_min_version: msgs::MIN_PROTOCOL_VERSION,
        hsm_wire_max_version: msgs::DEFAULT_MAX_PROTOCOL_VERSION,
    })).map_err(|e| format!("hsmd init: {:?}", e))?;
    Ok(init.into())
}

fn handler_err(e: HandlerError) -> String {
    match e {
        HandlerError::Signing(s) | HandlerError::Temporary(s) => s.message().to_string(),
        other => format!("{:?}", other),
    }
}

/// one `SetupChannel` message with the values of `sd`
fn wire_setup(root: &RootHandler, sd: &SetupD) -> Result<(), String> {
    let cp = make_test_counterparty_points();
    let chan = root.for_new_client(1, PubKey(wire_peer()), WIRE_DBID);
    chan.handle(WireMsg::SetupChannel(msgs::SetupChannel {
        is_outbound: sd.outbound,
        channel_value: sd.chan_value,
        push_value: 0,
        funding_txid: Txid::from_slice(&txid_bytes(sd.txid as i64)).unwrap(),
        funding_txout: sd.vout as u16,
        to_self_delay: sd.holder_delay,
        local_shutdown_script: Octets(vec![]),
        local_shutdown_wallet_index: None,
        remote_basepoints: Basepoints {
            revocation: wire_pk(&cp.revocation_basepoint.0),
            payment: wire_pk(&cp.payment_point),
            htlc: wire_pk(&cp.htlc_basepoint.0),
            delayed_payment: wire_pk(&cp.delayed_payment_basepoint.0),
        },
        remote_funding_pubkey: wire_pk(&cp.funding_pubkey),
        remote_to_self_delay: sd.cp_delay,
        remote_shutdown_script: Octets(vec![]),
        channel_type: Octets(wire_channel_type(sd.ctype)),
    })).map(|_| ()).map_err(handler_err)
}

/// a second setup of the (ready) channel with the values of `sd`: Ok / refused
fn resetup(live: &Live, sd: &SetupD) -> Result<(), String> {
    match &live.root {
        Some(root) => wire_setup(root, sd),
        None => live.node.setup_channel(live.id.clone(), None, make_setup(sd), &DerivationPath::master()).map(|_| ()).map_err(|e| e.message().to_string()),
    }
}

/// Handler mode: HsmdInit, NewChannel, GetChannelBasepoints, SetupChannel with the negotiated values on the wire.
fn fresh_base_wire(sd: &SetupD, c: &ContentD) -> Result<Live, String> {
    let persister: Arc<dyn Persist> = Arc::new(KVVPersister(MemoryKVVStore::new([7u8; 16]), JsonFormat));
    let root = build_root(persister.clone(), sd.mode)?;
    let peer = wire_peer();
    root.handle(WireMsg::NewChannel(msgs::NewChannel { peer_id: PubKey(peer), dbid: WIRE_DBID })).map_err(|e| format!("new channel: {}", handler_err(e)))?;
    let reply = root.handle(WireMsg::GetChannelBasepoints(msgs::GetChannelBasepoints { node_id: PubKey(peer), dbid: WIRE_DBID })).map_err(|e| format!("basepoints: {}", handler_err(e)))?;
    let bp = reply.as_any().downcast_ref::<msgs::GetChannelBasepointsReply>().ok_or("GetChannelBasepointsReply")?;
    let pk = |p: &PubKey| PublicKey::from_slice(&p.0).map_err(|e| format!("pubkey: {}", e));
    let holder = ChannelPublicKeys {
        funding_pubkey: pk(&bp.funding)?,
        revocation_basepoint: RevocationBasepoint(pk(&bp.basepoints.revocation)?),
        payment_point: pk(&bp.basepoints.payment)?,
        delayed_payment_basepoint: DelayedPaymentBasepoint(pk(&bp.basepoints.delayed_payment)?),
        htlc_basepoint: HtlcBasepoint(pk(&bp.basepoints.htlc)?),
    };
    let first = sd.pre.as_deref().unwrap_or(sd);
    wire_setup(&root, first).map_err(|e| format!("setup_channel: {}", e))?;
    if sd.pre.is_some() { let _ = wire_setup(&root, sd); }
    let node = root.node().clone();
    let id = ChannelId::new_from_peer_id_and_oid(&peer, WIRE_DBID);
    add_keysends(&node, c);
    Ok(Live { node, id, persister, holder, root: Some(root) })
}

/// outgoing payments (HTLCs the counterparty receives) need an approved invoice / keysend
fn add_keysends(node: &Arc<Node>, c: &ContentD) {
    let mut per_hash: BTreeMap<i64, u64> = BTreeMap::new();
    for h in c.htlcs.iter().filter(|h| !h.0) {
        let e = per_hash.entry(h.2).or_insert(0);
        *e = e.saturating_add(h.1.saturating_mul(1000));
    }
    for (h, msat) in per_hash {
        let _ = node.add_keysend(make_test_pubkey(1), PaymentHash(payment_hash_bytes(h)), msat);
    }
}

fn node_seed() -> [u8; 32] {
    let mut seed = [0u8; 32];
    seed.copy_from_slice(&hex::decode(TEST_SEED[1]).unwrap());
    seed
}

fn services(persister: Arc<dyn Persist>, mode: u8) -> NodeServices {
    NodeServices {
        // bit 3 of the mode: the OnchainValidator wrapped around the SimpleValidator
        validator_factory: if mode & 8 != 0 {
            Arc::new(OnchainValidatorFactory::new_with_simple_factory(SimpleValidatorFactory::new_with_policy(policy_for(mode))))
        } else {
            Arc::new(SimpleValidatorFactory::new_with_policy(policy_for(mode)))
        },
        starting_time_factory: make_genesis_starting_time_factory(Network::Testnet),
        persister,
        clock: Arc::new(StandardClock()),
        trusted_oracle_pubkeys: vec![],
    }
}

/// A fresh node with a real persister (KVVPersister over a memory store) and a ready channel.
fn fresh_base(sd: &SetupD, c: &ContentD) -> Result<Live, String> {
    if sd.via { return fresh_base_wire(sd, c); }
    let persister: Arc<dyn Persist> = Arc::new(KVVPersister(MemoryKVVStore::new([7u8; 16]), JsonFormat));
    let node = Arc::new(Node::new(TEST_NODE_CONFIG, &node_seed(), vec![], services(persister.clone(), sd.mode)));
    persister.new_node(&node.get_id(), &TEST_NODE_CONFIG, &*node.get_state()).map_err(|e| format!("new_node: {:?}", e))?;
    persister.new_tracker(&node.get_id(), &node.get_tracker()).map_err(|e| format!("new_tracker: {:?}", e))?;
    node.add_allowlist(&[]).map_err(|e| format!("allowlist: {}", e.message()))?;
    let (id, _) = node.new_channel(WIRE_DBID, &wire_peer(), &node).map_err(|e| format!("new_channel: {:?}", e))?;
    node.setup_channel(id.clone(), None, make_setup(sd.pre.as_deref().unwrap_or(sd)), &DerivationPath::master())
        .map_err(|e| format!("setup_channel: {}", e.message()))?;
    if sd.pre.is_some() { let _ = node.setup_channel(id.clone(), None, make_setup(sd), &DerivationPath::master()); }
    add_keysends(&node, c);
    let holder = node.with_channel(&id, |chan| Ok(chan.keys.pubkeys().clone())).map_err(|e| format!("pubkeys: {}", e.message()))?;
    Ok(Live { node, id, persister, holder, root: None })
}

/// put the channel in the state "about to sign counterparty commitment `commit_num`" (in-memory test
/// setters; a channel that already signed this commitment — a retry after restart — is left alone)
fn arm(live: &Live, c: &ContentD) -> Result<(), String> {
    let cn = c.commit_num;
    live.node.with_channel(&live.id, |chan| {
        if chan.enforcement_state.next_counterparty_commit_num != cn.wrapping_add(1) {
            chan.enforcement_state.set_next_counterparty_commit_num_for_testing(cn, make_test_pubkey(0x10));
            chan.enforcement_state.set_next_counterparty_revoke_num_for_testing(cn.saturating_sub(1));
        }
        Ok(())
    })
    .map_err(|e| format!("with_channel: {}", e.message()))
}

fn fresh(sd: &SetupD, c: &ContentD) -> Result<Live, String> {
    let live = fresh_base(sd, c)?;
    arm(&live, c)?;
    Ok(live)
}

/// Restart: drop the node and rebuild it from what the persister holds (`Node::restore_node`).
fn restore(live: Live, sd: &SetupD, c: &ContentD) -> Result<Live, String> {
    let Live { node, id, persister, holder, root } = live;
    let via = root.is_some();
    drop(root);
    drop(node);
    let live = if via {
        // handler mode: a new handler over the same store restores the node (HandlerBuilder::build)
        let root = build_root(persister.clone(), sd.mode)?;
        let node = root.node().clone();
        Live { node, id, persister, holder, root: Some(root) }
    } else {
        let (node_id, entry) = persister.get_nodes().map_err(|e| format!("get_nodes: {:?}", e))?.into_iter().next().ok_or("no node persisted")?;
        let node = Node::restore_node(&node_id, entry, &node_seed(), services(persister.clone(), sd.mode))
            .map_err(|e| format!("restore_node: {}", e.message()))?;
        Live { node, id, persister, holder, root: None }
    };
    arm(&live, c)?;
    Ok(live)
}

/// The keys of one counterparty commitment, derived (LDK's `TxCreationKeys::derive_new`, key derivation is
/// trusted) from the basepoints the harness itself put on / read off the wire — not from the channel object.
fn key_tab(holder: &ChannelPublicKeys, point: &PublicKey) -> KeyTab {
    let cp = make_test_counterparty_points();
    let secp = Secp256k1::new();
    let k = TxCreationKeys::derive_new(&secp, point, &cp.delayed_payment_basepoint, &cp.htlc_basepoint, &holder.revocation_basepoint, &holder.htlc_basepoint);
    let z = [0u8; 33];
    KeyTab {
        role: vec![
            z,
            k.revocation_key.to_public_key().serialize(),
            k.broadcaster_delayed_payment_key.to_public_key().serialize(),
            k.broadcaster_htlc_key.to_public_key().serialize(),
            k.countersignatory_htlc_key.to_public_key().serialize(),
            holder.payment_point.serialize(),
            cp.funding_pubkey.serialize(),
            holder.funding_pubkey.serialize(),
        ],
    }
}

/// obscure factor, computed by the harness itself: SHA-256(funder payment basepoint ‖ fundee's), low 48 bits
fn obscure_factor(holder: &ChannelPublicKeys, outbound: bool) -> u64 {
    let holder = holder.payment_point.serialize();
    let cp = make_test_counterparty_points().payment_point.serialize();
    let mut d = Vec::new();
    if outbound {
        d.extend_from_slice(&holder);
        d.extend_from_slice(&cp);
    } else {
        d.extend_from_slice(&cp);
        d.extend_from_slice(&holder);
    }
    let h = sha256::Hash::hash(&d).to_byte_array();
    h[26..32].iter().fold(0u64, |a, b| (a << 8) | *b as u64)
}

/// candidate templates of a content: (template, htlc index)
fn candidates(sd: &SetupD, c: &ContentD) -> Vec<(Spk, Option<usize>)> {
    let mut v: Vec<(Spk, Option<usize>)> = vec![
        (Spk::Wpkh(5), None),
        (Spk::Wsh(Tpl::RemoteA(5)), None),
        (Spk::Wsh(Tpl::Local { rev: 1, delay: sd.holder_delay as i64, delayed: 2 }), None),
        (Spk::Wsh(Tpl::Local { rev: 1, delay: sd.cp_delay as i64, delayed: 2 }), None),
        (Spk::Wsh(Tpl::Anchor(6)), None),
        (Spk::Wsh(Tpl::Anchor(7)), None),
    ];
    for (i, h) in c.htlcs.iter().enumerate() {
        for csv in [ldk_anchors(sd.ctype), !ldk_anchors(sd.ctype)] {
            let t = if h.0 {
                Tpl::Off { csv, rev: 1, k1: 4, k2: 3, hash: h.2, hashlen: 20 }
            } else {
                Tpl::Recv { csv, rev: 1, k1: 4, hash: h.2, hashlen: 20, k2: 3, cltv: h.3 as i64 }
            };
            v.push((Spk::Wsh(t), Some(i)));
        }
    }
    v
}

struct Base {
    kt: KeyTab,
    stx: STx,
    ws: Vec<Option<Tpl>>,
    /// per output: the HTLC (index into content.htlcs) it carries
    htlc_of: Vec<Option<usize>>,
    bytes: Vec<u8>,
    /// the commitment the harness itself builds from the negotiated (wire) values, serialised
    own: Option<Vec<u8>>,
}

/// Render a real transaction into the structured form.
fn render_tx(sd: &SetupD, c: &ContentD, kt: &KeyTab, tx: &Transaction) -> (STx, Vec<Option<Tpl>>, Vec<Option<usize>>) {
    let cands: Vec<(Spk, Vec<u8>, Option<usize>)> =
        candidates(sd, c).into_iter().map(|(s, h)| { let b = spk_bytes(&s, kt); (s, b, h) }).collect();
    let mut used = vec![false; c.htlcs.len()];
    let mut outs = Vec::new();
    let mut ws = Vec::new();
    let mut htlc_of = Vec::new();
    for o in &tx.output {
        let spkb = o.script_pubkey.as_bytes();
        // among matching unused HTLC candidates with the same value take the smallest (cltv, hash) (LDK's tie-break)
        let mut best: Option<(&Spk, Option<usize>)> = None;
        for (s, b, h) in &cands {
            if &b[..] != spkb { continue; }
            match h {
                None => { if best.is_none() { best = Some((s, None)); } }
                Some(i) => {
                    if used[*i] || c.htlcs[*i].1 != o.value.to_sat() { continue; }
                    let better = match best {
                        Some((_, Some(j))) => (c.htlcs[*i].3, c.htlcs[*i].2) < (c.htlcs[j].3, c.htlcs[j].2),
                        _ => true,
                    };
                    if better { best = Some((s, Some(*i))); }
                }
            }
        }
        match best {
            Some((s, h)) => {
                if let Some(i) = h { used[i] = true; }
                outs.push(SOut { value: o.value.to_sat(), spk: s.clone() });
                ws.push(match s { Spk::Wsh(t) => Some(t.clone()), _ => None });
                htlc_of.push(h);
            }
            None => {
                outs.push(SOut { value: o.value.to_sat(), spk: Spk::Raw(spkb.to_vec()) });
                ws.push(None);
                htlc_of.push(None);
            }
        }
    }
    let inputs = tx.input.iter().map(|i| {
        let tb: &[u8] = i.previous_output.txid.as_ref();
        SIn {
            txid: txid_id_of(tb),
            vout: i.previous_output.vout,
            sequence: i.sequence.0,
            script_sig: !i.script_sig.is_empty(),
            witness: !i.witness.is_empty(),
        }
    }).collect();
    (STx { version: tx.version.0 as u32, locktime: tx.lock_time.to_consensus_u32(), inputs, outs }, ws, htlc_of)
}

/// The harness' own statement of the BOLT-3 structure of a counterparty commitment (independent of the
/// repository's builder, of LDK and of the Lean model): header fields and the multiset of outputs.
/// Returns a description of the first deviation of `tx` from it.
fn structure_deviation(sd: &SetupD, c: &ContentD, kt: &KeyTab, obscure: u64, tx: &Transaction) -> Option<String> {
    if c.commit_num >= (1u64 << 48) { return None; }
    let obs = obscure ^ c.commit_num;
    if tx.version.0 != 2 { return Some(format!("version {}", tx.version.0)); }
    let lt = 0x2000_0000u32 | (obs & 0xff_ffff) as u32;
    if tx.lock_time.to_consensus_u32() != lt { return Some(format!("locktime {} expected {}", tx.lock_time.to_consensus_u32(), lt)); }
    if tx.input.len() != 1 { return Some(format!("{} inputs", tx.input.len())); }
    let i = &tx.input[0];
    let sq = 0x8000_0000u32 | (obs >> 24) as u32;
    if i.sequence.0 != sq { return Some(format!("sequence {} expected {}", i.sequence.0, sq)); }
    let tb: &[u8] = i.previous_output.txid.as_ref();
    if tb != &txid_bytes(sd.txid as i64)[..] { return Some("funding txid".into()); }
    // BOLT-2 limits the funding output index to u16; above that only the truncation the code performs is known
    if sd.vout < 65536 && i.previous_output.vout != sd.vout { return Some(format!("funding vout {} expected {}", i.previous_output.vout, sd.vout)); }
    if !i.script_sig.is_empty() || !i.witness.is_empty() { return Some("non-empty scriptSig/witness".into()); }
    let z = ldk_anchors(sd.ctype);
    let n = c.htlcs.len();
    let mut exp: Vec<(u64, Vec<u8>)> = Vec::new();
    if c.to_cs > 0 { exp.push((c.to_cs, spk_bytes(&if z { Spk::Wsh(Tpl::RemoteA(5)) } else { Spk::Wpkh(5) }, kt))); }
    if c.to_bc > 0 { exp.push((c.to_bc, spk_bytes(&Spk::Wsh(Tpl::Local { rev: 1, delay: sd.holder_delay as i64, delayed: 2 }), kt))); }
    if z && (c.to_bc > 0 || n > 0) { exp.push((330, spk_bytes(&Spk::Wsh(Tpl::Anchor(6)), kt))); }
    if z && (c.to_cs > 0 || n > 0) { exp.push((330, spk_bytes(&Spk::Wsh(Tpl::Anchor(7)), kt))); }
    for h in &c.htlcs {
        let t = if h.0 { Tpl::Off { csv: z, rev: 1, k1: 4, k2: 3, hash: h.2, hashlen: 20 } }
                else { Tpl::Recv { csv: z, rev: 1, k1: 4, hash: h.2, hashlen: 20, k2: 3, cltv: h.3 as i64 } };
        exp.push((h.1, spk_bytes(&Spk::Wsh(t), kt)));
    }
    let got: Vec<(u64, Vec<u8>)> = tx.output.iter().map(|o| (o.value.to_sat(), o.script_pubkey.as_bytes().to_vec())).collect();
    if got.windows(2).any(|w| w[0] > w[1]) { return Some("outputs not in BIP69 order".into()); }
    exp.sort();
    if exp != got {
        let missing: Vec<String> = exp.iter().filter(|e| !got.contains(e)).map(|e| format!("{}:{}", e.0, hex::encode(&e.1))).collect();
        let extra: Vec<String> = got.iter().filter(|e| !exp.contains(e)).map(|e| format!("{}:{}", e.0, hex::encode(&e.1))).collect();
        return Some(format!("outputs differ: missing [{}] unexpected [{}] ({} vs {} outputs)", missing.join(","), extra.join(","), exp.len(), got.len()));
    }
    None
}

/// The BOLT-3 commitment the harness builds itself from the negotiated values (same rules as
/// `structure_deviation`), serialised with the harness' own serializer.
fn own_canonical_bytes(sd: &SetupD, c: &ContentD, kt: &KeyTab, obscure: u64) -> Option<Vec<u8>> {
    if c.commit_num >= (1u64 << 48) { return None; }
    let obs = obscure ^ c.commit_num;
    let z = ldk_anchors(sd.ctype);
    let n = c.htlcs.len();
    let mut exp: Vec<(u64, Vec<u8>)> = Vec::new();
    if c.to_cs > 0 { exp.push((c.to_cs, spk_bytes(&if z { Spk::Wsh(Tpl::RemoteA(5)) } else { Spk::Wpkh(5) }, kt))); }
    if c.to_bc > 0 { exp.push((c.to_bc, spk_bytes(&Spk::Wsh(Tpl::Local { rev: 1, delay: sd.holder_delay as i64, delayed: 2 }), kt))); }
    if z && (c.to_bc > 0 || n > 0) { exp.push((330, spk_bytes(&Spk::Wsh(Tpl::Anchor(6)), kt))); }
    if z && (c.to_cs > 0 || n > 0) { exp.push((330, spk_bytes(&Spk::Wsh(Tpl::Anchor(7)), kt))); }
    for h in &c.htlcs {
        let t = if h.0 { Tpl::Off { csv: z, rev: 1, k1: 4, k2: 3, hash: h.2, hashlen: 20 } }
                else { Tpl::Recv { csv: z, rev: 1, k1: 4, hash: h.2, hashlen: 20, k2: 3, cltv: h.3 as i64 } };
        exp.push((h.1, spk_bytes(&Spk::Wsh(t), kt)));
    }
    exp.sort();
    let stx = STx {
        version: 2,
        locktime: 0x2000_0000u32 | (obs & 0xff_ffff) as u32,
        // above u16 only the truncation the code performs is known (BOLT-2 limits the index to u16)
        inputs: vec![SIn { txid: sd.txid as i64, vout: sd.vout % 65536, sequence: 0x8000_0000u32 | (obs >> 24) as u32, script_sig: false, witness: false }],
        outs: exp.into_iter().map(|(v, b)| SOut { value: v, spk: Spk::Raw(b) }).collect(),
    };
    Some(serialize(&stx, kt))
}

fn htlc_weight(sd: &SetupD, offered: bool) -> u64 {
    match (offered, ldk_anchors(sd.ctype)) { (true, true) => 666, (true, false) => 663, (false, true) => 706, (false, false) => 703 }
}

/// the harness' own HTLC-transaction rule: (vout, locktime, sequence, value or None, single|acp)
fn htlc_tx_fields(sd: &SetupD, c: &ContentD, htlc_of: &[Option<usize>]) -> Vec<(u32, u32, u32, Option<u64>, bool, usize)> {
    let mut v = Vec::new();
    for (i, h) in htlc_of.iter().enumerate() {
        if let Some(hi) = h {
            let (offered, value, _, cltv) = c.htlcs[*hi];
            let val = if sd.ctype == 'z' { Some(value) } else {
                let fee = c.feerate as u64 * htlc_weight(sd, offered) / 1000;
                value.checked_sub(fee)
            };
            v.push((i as u32, if offered { cltv } else { 0 }, if ldk_anchors(sd.ctype) { 1 } else { 0 }, val, ldk_anchors(sd.ctype), *hi));
        }
    }
    v
}

fn funding_redeemscript(kt: &KeyTab) -> ScriptBuf {
    let (a, b) = (kt.bytes(6), kt.bytes(7));
    let (lo, hi) = if a[..] < b[..] { (a, b) } else { (b, a) };
    let mut v = vec![0x52u8, 33];
    v.extend_from_slice(&lo);
    v.push(33);
    v.extend_from_slice(&hi);
    v.extend_from_slice(&[0x52, 0xae]);
    ScriptBuf::from(v)
}

fn commit_sighash(kt: &KeyTab, chan_value: u64, tx_bytes: &[u8]) -> Option<[u8; 32]> {
    let tx: Transaction = deserialize(tx_bytes).ok()?;
    SighashCache::new(&tx).p2wsh_signature_hash(0, &funding_redeemscript(kt), Amount::from_sat(chan_value), EcdsaSighashType::All).ok().map(|h| h.to_byte_array())
}

fn verify_commit_sig(kt: &KeyTab, chan_value: u64, tx_bytes: &[u8], sig: &Signature) -> bool {
    let tx: Transaction = match deserialize(tx_bytes) { Ok(t) => t, Err(_) => return false };
    let h = match SighashCache::new(&tx).p2wsh_signature_hash(0, &funding_redeemscript(kt), Amount::from_sat(chan_value), EcdsaSighashType::All) {
        Ok(h) => h, Err(_) => return false };
    let pk = match PublicKey::from_slice(&kt.bytes(7)) { Ok(p) => p, Err(_) => return false };
    Secp256k1::verification_only().verify_ecdsa(&Message::from_digest(h.to_byte_array()), sig, &pk).is_ok()
}

fn verify_htlc_sig(sd: &SetupD, c: &ContentD, kt: &KeyTab, commit_bytes: &[u8], f: &(u32, u32, u32, Option<u64>, bool, usize), sig: &Signature) -> bool {
    let commit: Transaction = match deserialize(commit_bytes) { Ok(t) => t, Err(_) => return false };
    let value = match f.3 { Some(v) => v, None => return false };
    let out_script = ScriptBuf::from(script_bytes(&Tpl::Local { rev: 1, delay: sd.holder_delay as i64, delayed: 2 }, kt));
    let tx = Transaction {
        version: Version::TWO,
        lock_time: LockTime::from_consensus(f.1),
        input: vec![TxIn { previous_output: OutPoint { txid: commit.compute_txid(), vout: f.0 }, script_sig: ScriptBuf::new(), sequence: Sequence(f.2), witness: Witness::new() }],
        output: vec![TxOut { value: Amount::from_sat(value), script_pubkey: out_script.to_p2wsh() }],
    };
    let (offered, amount, hash, cltv) = c.htlcs[f.5];
    let redeem = if offered {
        Tpl::Off { csv: ldk_anchors(sd.ctype), rev: 1, k1: 4, k2: 3, hash, hashlen: 20 }
    } else {
        Tpl::Recv { csv: ldk_anchors(sd.ctype), rev: 1, k1: 4, hash, hashlen: 20, k2: 3, cltv: cltv as i64 }
    };
    let ty = if f.4 { EcdsaSighashType::SinglePlusAnyoneCanPay } else { EcdsaSighashType::All };
    let h = match SighashCache::new(&tx).p2wsh_signature_hash(0, &ScriptBuf::from(script_bytes(&redeem, kt)), Amount::from_sat(amount), ty) {
        Ok(h) => h, Err(_) => return false };
    let pk = match PublicKey::from_slice(&kt.bytes(4)) { Ok(p) => p, Err(_) => return false };
    Secp256k1::verification_only().verify_ecdsa(&Message::from_digest(h.to_byte_array()), sig, &pk).is_ok()
}

/// build the real LDK transaction of a content on a live channel
fn ldk_tx(live: &Live, sd: &SetupD, c: &ContentD) -> Result<(Transaction, KeyTab, u64), String> {
    let point = make_test_pubkey(sd.point);
    let (off, recv) = c.lists();
    let c2 = c.clone();
    let r = catch_unwind(AssertUnwindSafe(|| {
        live.node.with_channel(&live.id, |chan| {
            let kt = key_tab(&live.holder, &point);
            let obs = obscure_factor(&live.holder, sd.outbound);
            let htlcs = Channel::htlcs_info2_to_oic(&off, &recv);
            let ctx = chan.make_counterparty_commitment_tx(&point, c2.commit_num, c2.feerate, c2.to_cs, c2.to_bc, htlcs);
            Ok((ctx.trust().built_transaction().transaction.clone(), kt, obs))
        })
    }));
    match r {
        Ok(Ok(x)) => Ok(x),
        Ok(Err(e)) => Err(format!("status {}", e.message())),
        Err(_) => Err("panic".into()),
    }
}

fn keys_only(live: &Live, sd: &SetupD) -> (KeyTab, u64) {
    let point = make_test_pubkey(sd.point);
    (key_tab(&live.holder, &point), obscure_factor(&live.holder, sd.outbound))
}

#[derive(Clone, Copy, PartialEq, Debug)]
enum Pol { Ok, Err, Panic }
impl Pol {
    fn s(&self) -> &'static str { match self { Pol::Ok => "ok", Pol::Err => "err", Pol::Panic => "panic" } }
}

enum P2Res { Ok(Signature, Vec<Signature>), Err(String), Panic }

/// HTLCs as they go over the wire: side LOCAL = offered by the holder (the counterparty receives it), amounts in msat
fn wire_htlcs(c: &ContentD) -> Vec<WireHtlc> {
    c.htlcs.iter().map(|h| WireHtlc {
        side: if h.0 { WireHtlc::REMOTE } else { WireHtlc::LOCAL },
        // msat amounts on the wire need not be whole satoshis; BOLT-3 rounds the output value down
        amount: h.1.saturating_mul(1000).saturating_add(wire_msat_remainder(h)),
        payment_hash: WireSha256(payment_hash_bytes(h.2)),
        ctlv_expiry: h.3,
    }).collect()
}

/// sub-satoshi part of an HTLC amount on the wire (a deterministic function of the HTLC, both sides):
/// 0, 1, 500 or 999 msat
fn wire_msat_remainder(h: &(bool, u64, i64, u32)) -> u64 {
    [0u64, 1, 500, 999][((h.1 as u64).wrapping_add(h.2 as u64).wrapping_add(h.3 as u64) % 4) as usize]
}

fn sig_of(b: &[u8; 64]) -> Option<Signature> { Signature::from_compact(b).ok() }

fn real_p2(live: &Live, sd: &SetupD, c: &ContentD) -> P2Res {
    let point = make_test_pubkey(sd.point);
    if let Some(root) = &live.root {
        // through the handler: SignRemoteCommitmentTx2
        let r = catch_unwind(AssertUnwindSafe(|| {
            let chan = root.for_new_client(1, PubKey(wire_peer()), WIRE_DBID);
            chan.handle(WireMsg::SignRemoteCommitmentTx2(msgs::SignRemoteCommitmentTx2 {
                remote_per_commitment_point: wire_pk(&point),
                commitment_number: c.commit_num,
                feerate: c.feerate,
                to_local_value_sat: c.to_cs,
                to_remote_value_sat: c.to_bc,
                htlcs: Array(wire_htlcs(c)),
            }))
        }));
        return match r {
            Err(_) => P2Res::Panic,
            Ok(Err(e)) => P2Res::Err(handler_err(e)),
            Ok(Ok(reply)) => match reply.as_any().downcast_ref::<msgs::SignCommitmentTxWithHtlcsReply>() {
                None => P2Res::Err("unexpected reply".into()),
                Some(rep) => {
                    let sig = sig_of(&rep.signature.signature.0);
                    let hs: Option<Vec<Signature>> = rep.htlc_signatures.0.iter().map(|s| sig_of(&s.signature.0)).collect();
                    match (sig, hs) { (Some(s), Some(h)) => P2Res::Ok(s, h), _ => P2Res::Err("undecodable signature in reply".into()) }
                }
            },
        };
    }
    let (off, recv) = c.lists();
    let r = catch_unwind(AssertUnwindSafe(|| {
        live.node.with_channel(&live.id, |chan| {
            chan.sign_counterparty_commitment_tx_phase2(&point, c.commit_num, c.feerate, c.to_cs, c.to_bc, off.clone(), recv.clone())
        })
    }));
    match r {
        Ok(Ok((s, h))) => P2Res::Ok(s, h),
        Ok(Err(e)) => P2Res::Err(e.message().to_string()),
        Err(_) => P2Res::Panic,
    }
}

fn pol_of(sd: &SetupD, c: &ContentD) -> Pol {
    match fresh(sd, c) {
        Err(_) => Pol::Err,
        Ok(live) => match real_p2(&live, sd, c) {
            P2Res::Ok(..) => Pol::Ok,
            P2Res::Err(_) => Pol::Err,
            P2Res::Panic => Pol::Panic,
        },
    }
}

enum P1Res { Ok(Signature, u64, u64, Vec<u8>, CommitmentInfo2), Err(String), Panic }

/// real phase 1 on (tx bytes, witness scripts); on acceptance also returns the balances the signer
/// recorded as validated and the canonical LDK bytes of that recorded content
fn real_p1(live: &Live, sd: &SetupD, c: &ContentD, tx: &Transaction, ws: &[Vec<u8>]) -> P1Res {
    let point = make_test_pubkey(sd.point);
    if let Some(root) = &live.root {
        // through the handler (SignRemoteCommitmentTx: tx + PSBT carrying the witness scripts) whenever the request
        // can be expressed on the wire (one witness script per output, unsigned transaction)
        if ws.len() == tx.output.len() {
            if let Ok(mut psbt) = Psbt::from_unsigned_tx(tx.clone()) {
                for (o, w) in psbt.outputs.iter_mut().zip(ws.iter()) {
                    if !w.is_empty() { o.witness_script = Some(ScriptBuf::from(w.clone())); }
                }
                let r = catch_unwind(AssertUnwindSafe(|| {
                    let chan = root.for_new_client(1, PubKey(wire_peer()), WIRE_DBID);
                    chan.handle(WireMsg::SignRemoteCommitmentTx(msgs::SignRemoteCommitmentTx {
                        tx: WithSize(tx.clone()),
                        psbt: WithSize(PsbtWrapper { inner: psbt }),
                        remote_funding_key: wire_pk(&make_test_counterparty_points().funding_pubkey),
                        remote_per_commitment_point: wire_pk(&point),
                        option_static_remotekey: sd.ctype != 'l',
                        commitment_number: c.commit_num,
                        htlcs: Array(wire_htlcs(c)),
                        feerate: c.feerate,
                    }))
                }));
                return match r {
                    Err(_) => P1Res::Panic,
                    Ok(Err(e)) => P1Res::Err(handler_err(e)),
                    Ok(Ok(reply)) => match reply.as_any().downcast_ref::<msgs::SignTxReply>().and_then(|rep| sig_of(&rep.signature.signature.0)) {
                        None => P1Res::Err("unexpected reply".into()),
                        Some(sig) => {
                            // what the signer recorded as validated, and the canonical tx of that
                            let rec = catch_unwind(AssertUnwindSafe(|| live.node.with_channel(&live.id, |chan| {
                                let info = chan.enforcement_state.current_counterparty_commit_info.clone().expect("recorded info");
                                let htlcs = Channel::htlcs_info2_to_oic(&info.offered_htlcs, &info.received_htlcs);
                                let ctx = chan.make_counterparty_commitment_tx(&point, c.commit_num, info.feerate_per_kw, info.to_countersigner_value_sat, info.to_broadcaster_value_sat, htlcs);
                                Ok((info.to_countersigner_value_sat, info.to_broadcaster_value_sat, cons_serialize(&ctx.trust().built_transaction().transaction), info))
                            })));
                            match rec { Ok(Ok((a, b, bytes, info))) => P1Res::Ok(sig, a, b, bytes, info), _ => P1Res::Err("no recorded info".into()) }
                        }
                    },
                };
            }
        }
    }
    let (off, recv) = c.lists();
    let r = catch_unwind(AssertUnwindSafe(|| {
        live.node.with_channel(&live.id, |chan| {
            let sig = chan.sign_counterparty_commitment_tx(tx, ws, &point, c.commit_num, c.feerate, off.clone(), recv.clone())?;
            let info = chan.enforcement_state.current_counterparty_commit_info.clone().expect("recorded info");
            let htlcs = Channel::htlcs_info2_to_oic(&info.offered_htlcs, &info.received_htlcs);
            let ctx = chan.make_counterparty_commitment_tx(&point, c.commit_num, info.feerate_per_kw, info.to_countersigner_value_sat, info.to_broadcaster_value_sat, htlcs);
            let bytes = cons_serialize(&ctx.trust().built_transaction().transaction);
            Ok((sig, info.to_countersigner_value_sat, info.to_broadcaster_value_sat, bytes, info))
        })
    }));
    match r {
        Ok(Ok((s, a, b, bytes, info))) => P1Res::Ok(s, a, b, bytes, info),
        Ok(Err(e)) => P1Res::Err(e.message().to_string()),
        Err(_) => P1Res::Panic,
    }
}

fn classify_err(m: &str) -> &'static str {
    if m.contains("recomposed tx mismatch") { "mismatch" }
    else if m.contains("decode_commitment_tx") { "decode" }
    else if m.contains("len(tx.output)") { "arg" }
    else if m.contains("policy") || m.contains("validate_") { "policy" }
    else { "other" }
}

fn parse_setup(t: &[&str]) -> Option<(char, bool, u16, u16, u8, u32, u64)> {
    Some((t[1].chars().next()?, t[2] == "1", t[3].parse().ok()?, t[4].parse().ok()?, t[5].parse().ok()?, t[6].parse().ok()?, t[7].parse().ok()?))
}

fn parse_content(t: &[&str]) -> Option<ContentD> {
    let mut htlcs = Vec::new();
    for h in &t[5..] {
        let p: Vec<&str> = h.split(':').collect();
        htlcs.push((p[0] == "o", p[1].parse().ok()?, p[2].parse().ok()?, p[3].parse().ok()?));
    }
    Some(ContentD { commit_num: t[1].parse().ok()?, feerate: t[2].parse().ok()?, to_cs: t[3].parse().ok()?, to_bc: t[4].parse().ok()?, htlcs })
}

/// the `content` op line: content plus, per HTLC, RIPEMD160 of its payment hash (computed here; the
/// Lean model computes SHA-256 / P2WSH and the output order itself)
fn content_line(c: &ContentD) -> String {
    use lightning_signer::bitcoin::hashes::ripemd160;
    let mut s = format!("content {} {} {} {}", c.commit_num, c.feerate, c.to_cs, c.to_bc);
    for h in c.htlcs.iter() {
        let r = ripemd160::Hash::hash(&payment_hash_bytes(h.2)).to_byte_array();
        s += &format!(" {}:{}:{}:{}:{}", if h.0 { "o" } else { "r" }, h.1, h.2, h.3, hex::encode(r));
    }
    s
}

/// the `keys` op line: the 33-byte keys of roles 1..7 and HASH160 of the revocation key and of the payment point
fn keys_line(kt: &KeyTab) -> String {
    use lightning_signer::bitcoin::hashes::hash160;
    let mut s = String::from("keys");
    for i in 1..=7 {
        s += &format!(" {}", hex::encode(kt.bytes(i)));
    }
    for i in [1i64, 5] {
        s += &format!(" {}", hex::encode(hash160::Hash::hash(&kt.bytes(i)).to_byte_array()));
    }
    s
}

/// the balances the decoder will extract from a structured tx (harness-side prediction used only to
/// pick the content whose policy verdict is handed to the model)
fn predicted_balances(sd: &SetupD, stx: &STx) -> (u64, u64) {
    let mut cs = 0;
    let mut bc = 0;
    let (mut has_cs, mut has_bc) = (false, false);
    for o in &stx.outs {
        match &o.spk {
            Spk::Wpkh(_) if !is_anchors(sd.ctype) && !has_cs => { cs = o.value; has_cs = true }
            Spk::Wsh(Tpl::RemoteA(_)) if is_anchors(sd.ctype) && !has_cs => { cs = o.value; has_cs = true }
            Spk::Wsh(Tpl::Local { .. }) if !has_bc => { bc = o.value; has_bc = true }
            _ => {}
        }
    }
    (cs, bc)
}

pub struct C04;

struct Ctx {
    sd: Option<SetupD>,
    c: Option<ContentD>,
    base: Option<Base>,
    live: Option<Live>,
    p2: Option<Option<Signature>>, // Some(Some(sig)) accepted, Some(None) refused
    /// the node on which phase 2 was accepted (kept so that a `restart` can restore *that* node)
    kept: Option<Live>,
    /// the next channel to be built goes through persist + restore before it signs
    restart_next: bool,
    /// the node that accepted phase 2, restored after a `restart`: used by `p1retry` only
    retry: Option<Live>,
    /// the HTLC signatures phase 2 returned (output order)
    p2_hsigs: Vec<Signature>,
}

impl Ctx {
    fn live(&mut self) -> Result<&Live, String> {
        if self.live.is_none() {
            let (sd, c) = (self.sd.as_ref().unwrap(), self.c.as_ref().unwrap());
            let l = if self.restart_next { restore(fresh_base(sd, c)?, sd, c)? } else { fresh(sd, c)? };
            self.restart_next = false;
            self.live = Some(l);
        }
        Ok(self.live.as_ref().unwrap())
    }
}

/// `sd` with one negotiated field changed (`same`: unchanged)
fn changed_setup(sd: &SetupD, field: &str, v: u64) -> SetupD {
    let mut n = sd.clone();
    n.pre = None;
    match field {
        "outbound" => n.outbound = v != 0,
        "hdelay" => n.holder_delay = v as u16,
        "cdelay" => n.cp_delay = v as u16,
        "txid" => n.txid = v as u8,
        "vout" => n.vout = v as u32,
        "value" => n.chan_value = v,
        "ctype" => n.ctype = ['l', 's', 'a', 'z'][(v % 4) as usize],
        _ => {}
    }
    n
}

/// the second-stage HTLC transaction of HTLC output `f` of the commitment `commit_txid` as the harness builds it
fn own_htlc_tx(sd: &SetupD, kt: &KeyTab, commit_txid: Txid, vout: u32, locktime: u32, value: u64) -> Transaction {
    let out_script = ScriptBuf::from(script_bytes(&Tpl::Local { rev: 1, delay: sd.holder_delay as i64, delayed: 2 }, kt));
    Transaction {
        version: Version::TWO,
        lock_time: LockTime::from_consensus(locktime),
        input: vec![TxIn { previous_output: OutPoint { txid: commit_txid, vout }, script_sig: ScriptBuf::new(), sequence: Sequence(if ldk_anchors(sd.ctype) { 1 } else { 0 }), witness: Witness::new() }],
        output: vec![TxOut { value: Amount::from_sat(value), script_pubkey: out_script.to_p2wsh() }],
    }
}

fn htlc_sighash(tx: &Transaction, redeem: &ScriptBuf, amount: u64, acp: bool) -> Option<[u8; 32]> {
    let ty = if acp { EcdsaSighashType::SinglePlusAnyoneCanPay } else { EcdsaSighashType::All };
    SighashCache::new(tx).p2wsh_signature_hash(0, redeem, Amount::from_sat(amount), ty).ok().map(|h| h.to_byte_array())
}

/// the raw second-stage entry point: through the protocol handler (SignRemoteHtlcTx: tx + PSBT carrying the HTLC amount as
/// the witness UTXO of the input and the witness script of the output) when the channel lives in a handler and the request
/// can be expressed on the wire (one input, one output: the arm asserts it), through vls-core otherwise
fn real_htlc_raw(live: &Live, sd: &SetupD, tx: &Transaction, point: &PublicKey, redeem: &ScriptBuf, amount: u64, out_ws: &ScriptBuf, co: &mut CaseOut)
    -> std::thread::Result<Result<(Signature, EcdsaSighashType), String>> {
    if let Some(root) = &live.root {
        if tx.input.len() == 1 && tx.output.len() == 1 {
            if let Ok(mut psbt) = Psbt::from_unsigned_tx(tx.clone()) {
                psbt.inputs[0].witness_utxo = Some(TxOut { value: Amount::from_sat(amount), script_pubkey: redeem.to_p2wsh() });
                psbt.outputs[0].witness_script = Some(out_ws.clone());
                co.tags.insert("htlcraw:via-handler".into());
                let r = catch_unwind(AssertUnwindSafe(|| {
                    let chan = root.for_new_client(1, PubKey(wire_peer()), WIRE_DBID);
                    let reply = chan.handle(WireMsg::SignRemoteHtlcTx(msgs::SignRemoteHtlcTx {
                        tx: WithSize(tx.clone()),
                        psbt: WithSize(PsbtWrapper { inner: psbt }),
                        wscript: Octets(redeem.to_bytes()),
                        remote_per_commitment_point: wire_pk(point),
                        option_anchors: is_anchors(sd.ctype),
                    })).map_err(handler_err)?;
                    let rep = reply.as_any().downcast_ref::<msgs::SignTxReply>().ok_or_else(|| "unexpected reply".to_string())?;
                    let sig = sig_of(&rep.signature.signature.0).ok_or_else(|| "malformed signature".to_string())?;
                    let typ = EcdsaSighashType::from_consensus(rep.signature.sighash as u32);
                    Ok((sig, typ))
                }));
                co.tags.insert(format!("htlcraw:via-handler:{}", match &r { Ok(Ok(_)) => "accept", Ok(Err(_)) => "reject", Err(_) => "panic" }));
                return r;
            }
        }
    }
    catch_unwind(AssertUnwindSafe(|| live.node.with_channel(&live.id, |chan| chan.sign_counterparty_htlc_tx(tx, point, redeem, amount, out_ws))
        .map(|ts| (ts.sig, ts.typ)).map_err(|e| e.message().to_string())))
}

fn well_formed(sd: &SetupD, c: &ContentD) -> bool {
    sd.holder_delay <= 2016 && c.htlcs.iter().all(|h| h.0 || h.3 < (1u32 << 31))
}

impl C04 {
    /// run real phase 1 and evaluate the monitors; returns the output line
    fn do_p1(&self, cx: &mut Ctx, co: &mut CaseOut, at: usize, tx: &Transaction, txb: &[u8], ws: &[Vec<u8>], unmutated: bool, label: &str) -> String {
        let sd = cx.sd.clone().unwrap();
        let c = cx.c.clone().unwrap();
        let kt = cx.base.as_ref().unwrap().kt.clone();
        let base_bytes = cx.base.as_ref().unwrap().bytes.clone();
        let p2 = cx.p2.clone();
        let live = match cx.live() { Ok(l) => l, Err(e) => { co.tags.insert("p1:no-channel".into()); return format!("reject # {}", e).split(" #").next().unwrap().to_string() } };
        let res = real_p1(live, &sd, &c, tx, ws);
        match res {
            P1Res::Ok(sig, cs, bc, canon_bytes, info) => {
                cx.live = None;
                // what phase 1 recorded as validated: the HTLCs and the feerate of the request (balances come from the tx)
                {
                    let key = |h: &HTLCInfo2| (h.value_sat, h.payment_hash.0, h.cltv_expiry);
                    let (mut eo, mut er) = c.lists();
                    eo.sort_by_key(key); er.sort_by_key(key);
                    let (mut ro, mut rr) = (info.offered_htlcs.clone(), info.received_htlcs.clone());
                    ro.sort_by_key(key); rr.sort_by_key(key);
                    if !(info.is_counterparty_broadcaster && info.feerate_per_kw == c.feerate && ro == eo && rr == er) {
                        co.violations.push(Violation { kind: "validated-content-differs".into(), desc: format!("phase 1 was asked to sign with feerate {} and {} HTLCs but validated/recorded {:?}", c.feerate, c.htlcs.len(), info), at });
                    }
                }
                co.tags.insert(format!("p1:accept:{}", label));
                // every witness script phase 1 accepted must be the one the output commits to
                if ws.len() != tx.output.len() {
                    co.violations.push(Violation { kind: "witscript-not-committed".into(), desc: format!("phase 1 accepted {} witness scripts for {} outputs", ws.len(), tx.output.len()), at });
                } else {
                    for (oi, (o, w)) in tx.output.iter().zip(ws.iter()).enumerate() {
                        if o.script_pubkey.is_p2wsh() && o.script_pubkey.as_bytes()[2..] != sha256::Hash::hash(w).to_byte_array()[..] {
                            co.violations.push(Violation { kind: "witscript-not-committed".into(), desc: format!("phase 1 accepted for output {} a witness script that does not hash to its script_pubkey: {}", oi, hex::encode(w)), at });
                            break;
                        }
                    }
                }
                if !verify_commit_sig(&kt, sd.chan_value, &canon_bytes, &sig) {
                    co.violations.push(Violation { kind: "sig-not-canonical".into(), desc: format!("phase-1 signature does not verify under the funding key against the canonical tx of the recorded content ({} {})", cs, bc), at });
                }
                if canon_bytes != txb {
                    if !nonstrict(sd.mode) {
                        co.violations.push(Violation { kind: "mutated-tx-signed".into(), desc: format!("phase 1 accepted a transaction that is not the canonical transaction of the content it validated: submitted {} canonical {}", hex::encode(txb), hex::encode(&canon_bytes)), at });
                    } else {
                        co.tags.insert("p1:accept-nonstrict-mismatch".into());
                        if commit_sighash(&kt, sd.chan_value, txb) != commit_sighash(&kt, sd.chan_value, &canon_bytes)
                            && verify_commit_sig(&kt, sd.chan_value, txb, &sig) {
                            co.violations.push(Violation { kind: "caller-tx-signed".into(), desc: "with policy-commitment demoted the signature is over the caller's transaction, not the recomposed one".into(), at });
                        }
                    }
                }
                if unmutated {
                    if let Some(Some(s2)) = p2 {
                        if s2 != sig {
                            co.violations.push(Violation { kind: "phase-sig-differs".into(), desc: "phase-1(canon) and phase-2 signatures differ".into(), at });
                        } else {
                            co.tags.insert("phase-sig-equal".into());
                        }
                    }
                }
                if cs != c.to_cs || bc != c.to_bc { co.tags.insert("p1:accept-other-content".into()); }
                let _ = base_bytes;
                format!("accept {} {}", cs, bc)
            }
            P1Res::Err(m) => {
                if std::env::var("C04_DEBUG").is_ok() { eprintln!("p1 reject [{}]: {}", label, m); }
                co.tags.insert(format!("p1:reject:{}:{}", classify_err(&m), label));
                if unmutated {
                    if let Some(Some(_)) = p2 {
                        if sd.ctype == 'a' {
                            co.violations.push(Violation { kind: "phase-disagree-nonzero-fee-anchors".into(), desc: format!("phase 2 accepts, phase 1 refuses the canonical tx for CommitmentType::Anchors: {}", m), at });
                        } else if well_formed(&sd, &c) {
                            co.violations.push(Violation { kind: "phase-disagree".into(), desc: format!("phase 2 accepted the content but phase 1 refuses its canonical transaction: {}", m), at });
                        } else {
                            co.tags.insert("phase-disagree-outside-wf".into());
                        }
                    }
                }
                "reject".into()
            }
            P1Res::Panic => {
                cx.live = None;
                co.tags.insert(format!("p1:panic:{}", label));
                "reject".into()
            }
        }
    }
}

impl Group for C04 {
    fn property(&self) -> &'static str { "C04" }
    fn model(&self) -> Option<&'static str> { Some("bolt3") }
    fn rule(&self) -> &'static str {
        "a third of the channels are set up through the protocol handler (HsmdInit, NewChannel, GetChannelBasepoints, SetupChannel with the \
         negotiated values on the wire) and signed for through SignRemoteCommitmentTx2 / SignRemoteCommitmentTx (tx + PSBT), the oracle \
         (keys, obscure factor, BOLT-3 structure, sighash amount) being built from the wire values; \
         restarts through a real persister (KVVPersister<MemoryKVVStore>) + Node::restore_node before the first signing request, \
         between phase 2 and phase 1 (the restored node re-signs the same commitment) and between mutations; \
         random channel setups (Legacy/StaticRemoteKey/Anchors/AnchorsZeroFeeHtlc, inbound/outbound, delays incl. 2016/2017, funding \
         outpoint incl. vout>=65536, policy default/lenient/policy-commitment demoted) and counterparty commitment contents (0-30 HTLCs \
         with duplicate hashes/values/cltv, values around the feerate- and type-dependent dust thresholds, one balance 0 or near 330, \
         commitment numbers up to 2^48); per content the real LDK transaction is rendered and compared with the Lean canon, real phase 2 \
         and phase 1 are run, and ~25 structured single-field mutations (version, locktime, sequence, outpoint, values, order, \
         extra/missing outputs, an extra/missing witness script, to_remote of the other channel type, every script-template \
         parameter in spk and/or witness script) plus ~16 raw byte flips of tx and witness \
         scripts go to the real phase 1; a case is non-trivial when phase 2 and phase-1(canon) accept a content with at least one HTLC \
         and at least one mutation is refused"
    }
    fn budget(&self, tier: Tier) -> usize { if tier == Tier::Quick { 700 } else { 6000 } }
    fn model_line(&self, op: &str) -> Option<String> {
        if op.starts_with("impl ") || op.starts_with("p1raw ") || op == "p1retry" || op == "p2next" || op.starts_with("htlcraw ") { None } else { Some(op.to_string()) }
    }
    fn corpus(&self) -> Vec<Vec<String>> {
        // the repository's own scenario (sign_commitment_tx_with_mutators_setup), static and anchors
        let mut v = Vec::new();
        for (t, mode, via) in [('s', 0u8, false), ('z', 0, false), ('a', 1, false), ('l', 0, false), ('s', 0, true), ('z', 0, true)] {
            let sd = SetupD { ctype: t, outbound: !via, holder_delay: 6, cp_delay: 7, txid: 2, vout: 0, chan_value: 3_000_000, mode, point: 10, via, pre: None };
            let c = ContentD { commit_num: 23, feerate: 0, to_cs: 1_000_000, to_bc: 1_979_997 - if t == 'z' { 660 } else { 0 },
                htlcs: vec![(true, 4000, 1, 2 << 16), (false, 5000, 3, 3 << 16), (false, 10_003, 5, 4 << 16)] };
            if let Some(ops) = build_case(&sd, &c, &mut Rng::new(7), Tier::Quick) { v.push(ops); }
        }
        v
    }
    fn gen_case(&self, rng: &mut Rng, tier: Tier) -> Vec<String> {
        for _ in 0..20 {
            let (sd, c) = gen_setup_content(rng);
            if let Some(ops) = build_case(&sd, &c, rng, tier) {
                return ops;
            }
        }
        vec!["setup s 1 6 7 2 0 3000000 0 1 0 10 0".into()]
    }
    fn exec_case(&self, ops: &[String]) -> CaseOut {
        let mut co = CaseOut::default();
        let mut cx = Ctx { sd: None, c: None, base: None, live: None, p2: None, kept: None, restart_next: false, retry: None, p2_hsigs: vec![] };
        let mut mode = 0u8;
        let mut saw_keys = false;
        let mut point = 10u8;
        let (mut saw_accept_htlc, mut saw_reject_mut) = (false, false);
        for (i, op) in ops.iter().enumerate() {
            let t: Vec<&str> = op.split_whitespace().collect();
            let line: String = match t[0] {
                "impl" => { mode = t[1].parse().unwrap(); point = t[2].parse().unwrap(); "ok".into() }
                "keys" => { saw_keys = true; "ok".into() }
                "filter" => "ok".into(),
                "resetup" => {
                    // a second setup_channel / SetupChannel on the ready channel, identical but for one field
                    let sd = cx.sd.clone().unwrap();
                    let field = t[1];
                    let nsd = changed_setup(&sd, field, t[2].parse().unwrap_or(0));
                    let dummy = ContentD { commit_num: 1, feerate: 0, to_cs: 0, to_bc: 0, htlcs: vec![] };
                    let verdict = match fresh_base(&sd, &dummy) { Err(_) => None, Ok(live) => Some(catch_unwind(AssertUnwindSafe(|| resetup(&live, &nsd)))) };
                    match verdict {
                        None => "no-channel".into(),
                        Some(Err(_)) => { co.tags.insert("resetup:panic".into()); "refused".into() }
                        Some(Ok(Err(_))) => { co.tags.insert(format!("resetup:refused:{}", field)); "refused".into() }
                        Some(Ok(Ok(()))) => {
                            co.tags.insert(format!("resetup:ok:{}", field));
                            if field != "same" {
                                // the signer acknowledged the new setup: from now on the channel's negotiated
                                // parameters — and with them the oracle — are the new ones
                                co.tags.insert("resetup:oracle-switched".into());
                                let mut n = nsd.clone();
                                n.pre = Some(Box::new(SetupD { pre: None, ..sd.clone() }));
                                cx.sd = Some(n);
                                cx.live = None; cx.kept = None; cx.base = None;
                            }
                            "ok".into()
                        }
                    }
                }
                "htlcraw" => {
                    // implementation only: the raw second-stage entry point (sign_counterparty_htlc_tx) on the HTLC
                    // transaction of the k-th HTLC output of the canonical commitment, possibly mutated
                    let sd = cx.sd.clone().unwrap();
                    let c = cx.c.clone().unwrap();
                    let k: usize = t[1].parse().unwrap();
                    let info = cx.base.as_ref().and_then(|b| {
                        let hf = htlc_tx_fields(&sd, &c, &b.htlc_of);
                        let commit: Transaction = deserialize(b.own.as_ref().unwrap_or(&b.bytes)).ok()?;
                        hf.get(k).cloned().map(|f| (f, commit.compute_txid(), b.kt.clone()))
                    });
                    match info {
                        None => "skip".into(),
                        Some((f, commit_txid, kt)) if f.3.is_some() && sd.ctype != 'a' => {
                            // optional 4th token: the request carries the per-commitment point of *another* commitment
                            // (point id + delta) — the HTLC transactions of a commitment other than the one signed last.
                            // Then the request goes to the very node that signed this commitment in phase 2 (if it did),
                            // whose enforcement state records the point of the commitment signed last; keys, scripts and
                            // the key the signature must verify under are derived from the point of the request.
                            let delta: u8 = t.get(3).and_then(|x| x.parse().ok()).unwrap_or(0);
                            // 5th token `kept`: send the request to the node that signed in phase 2 even for the point of this commitment
                            let use_kept = (delta != 0 || t.get(4) == Some(&"kept")) && cx.kept.is_some();
                            let point = make_test_pubkey(sd.point.wrapping_add(delta));
                            let kt = if delta != 0 {
                                let holder = if use_kept { cx.kept.as_ref().map(|l| l.holder.clone()) } else { cx.live().ok().map(|l| l.holder.clone()) };
                                match holder { Some(h) => key_tab(&h, &point), None => kt }
                            } else { kt };
                            let label = format!("{}{}", t[2], if delta != 0 { if use_kept { "@other-point-after-p2" } else { "@other-point" } } else if use_kept { "@after-p2" } else { "" });
                            let (offered, amount, hash, cltv) = c.htlcs[f.5];
                            let z = ldk_anchors(sd.ctype);
                            let redeem_t = if offered { Tpl::Off { csv: z, rev: 1, k1: 4, k2: 3, hash, hashlen: 20 } }
                                           else { Tpl::Recv { csv: z, rev: 1, k1: 4, hash, hashlen: 20, k2: 3, cltv: cltv as i64 } };
                            let redeem = ScriptBuf::from(script_bytes(&redeem_t, &kt));
                            let mut tx = own_htlc_tx(&sd, &kt, commit_txid, f.0, f.1, f.3.unwrap());
                            let mut out_t = Tpl::Local { rev: 1, delay: sd.holder_delay as i64, delayed: 2 };
                            match t[2] {
                                "none" => {}
                                "ver" => tx.version = Version(3),
                                "seq" => tx.input[0].sequence = Sequence(tx.input[0].sequence.0 ^ 1),
                                "seqhi" => tx.input[0].sequence = Sequence(0xffff_fffd),
                                "lock" => tx.lock_time = LockTime::from_consensus(f.1.wrapping_add(1)),
                                "val" => tx.output[0].value = Amount::from_sat(f.3.unwrap().saturating_sub(1)),
                                "vout" => tx.input[0].previous_output.vout = tx.input[0].previous_output.vout.wrapping_add(1),
                                "delay" => out_t = Tpl::Local { rev: 1, delay: sd.holder_delay as i64 + 1, delayed: 2 },
                                "cdelay" => out_t = Tpl::Local { rev: 1, delay: sd.cp_delay as i64, delayed: 2 },
                                "rev" => out_t = Tpl::Local { rev: 9, delay: sd.holder_delay as i64, delayed: 2 },
                                "delayed" => out_t = Tpl::Local { rev: 1, delay: sd.holder_delay as i64, delayed: 3 },
                                "addout" => { let o = tx.output[0].clone(); tx.output.push(o); }
                                "spk" => tx.output[0].script_pubkey = ScriptBuf::from(spk_bytes(&Spk::Wpkh(5), &kt)),
                                _ => {}
                            }
                            let out_ws = ScriptBuf::from(script_bytes(&out_t, &kt));
                            if matches!(t[2], "delay" | "cdelay" | "rev" | "delayed") { tx.output[0].script_pubkey = out_ws.to_p2wsh(); }
                            let res = if use_kept {
                                let live = cx.kept.as_ref().unwrap();
                                Some(real_htlc_raw(live, &sd, &tx, &point, &redeem, amount, &out_ws, &mut co))
                            } else {
                                match cx.live() {
                                    Err(_) => None,
                                    Ok(live) => Some(real_htlc_raw(live, &sd, &tx, &point, &redeem, amount, &out_ws, &mut co)),
                                }
                            };
                            match res {
                                None => "no-channel".into(),
                                Some(Err(_)) => { if use_kept { cx.kept = None; } else { cx.live = None; } co.tags.insert(format!("htlcraw:panic:{}", label)); "reject".into() }
                                Some(Ok(Err(e))) => { co.tags.insert(format!("htlcraw:reject:{}:{}", label, if e.contains("sighash mismatch") { "mismatch" } else { "other" })); "reject".into() }
                                Some(Ok(Ok(ts))) => {
                                    co.tags.insert(format!("htlcraw:accept:{}", label));
                                    // whatever was accepted: the signature must be over the BOLT-3 second-stage transaction
                                    // determined by the content of the request (outpoint, cltv of an offered HTLC, value)
                                    let lt = if offered { tx.lock_time.to_consensus_u32() } else { 0 };
                                    // (zero-fee HTLC transactions pay the full amount; otherwise the fee is part of the request)
                                    let cv = if sd.ctype == 'z' { amount } else { tx.output[0].value.to_sat() };
                                    let canon = own_htlc_tx(&sd, &kt, tx.input[0].previous_output.txid, tx.input[0].previous_output.vout, lt, cv);
                                    let acp = is_anchors(sd.ctype);
                                    let pk = PublicKey::from_slice(&kt.bytes(4)).unwrap();
                                    let ver = |h: Option<[u8; 32]>| h.map(|h| Secp256k1::verification_only().verify_ecdsa(&Message::from_digest(h), &ts.0, &pk).is_ok()).unwrap_or(false);
                                    let hc = htlc_sighash(&canon, &redeem, amount, acp);
                                    let hs = htlc_sighash(&tx, &redeem, amount, acp);
                                    let expect_ty = if acp { EcdsaSighashType::SinglePlusAnyoneCanPay } else { EcdsaSighashType::All };
                                    if !ver(hc) || ts.1 != expect_ty {
                                        co.violations.push(Violation { kind: "htlc-raw-sig-not-canonical".into(), desc: format!("sign_counterparty_htlc_tx ({} of HTLC output {}, policy mode {}) returned a signature that does not verify, under the HTLC key of the per-commitment point of the request, against the BOLT-3 second-stage transaction{}", label, f.0, sd.mode, if ver(hs) { " — it verifies against the caller's transaction" } else { "" }), at: i });
                                    } else if hs != hc {
                                        co.violations.push(Violation { kind: "mutated-htlc-tx-signed".into(), desc: format!("sign_counterparty_htlc_tx accepted a second-stage transaction ({}) that is not the BOLT-3 one of its content", t[2]), at: i });
                                    }
                                    // (no byte comparison with the phase-2 HTLC signature: LDK grinds for low R, the raw path does
                                    // not — both are valid signatures over the same sighash, which is what is checked)
                                    if t[2] == "none" && cx.p2_hsigs.get(k).is_some() { co.tags.insert("htlcraw:canon-also-signed-by-phase2".into()); }
                                    "accept".into()
                                }
                            }
                        }
                        Some(_) => "skip".into(),
                    }
                }
                "p2next" => {
                    // implementation only: the NEXT commitment (number + 1, per-commitment point id + 1, nearly the same content) on the very
                    // node that accepted phase 2 for this one, after the counterparty revoked the previous one — two successive
                    // commitments on one channel: whatever the signer carries over from the first (recorded point, recorded
                    // content, counters) must not leak into the second.  Oracle and checks as for `p2`, for (number + 1, point + 1).
                    let sd = cx.sd.clone().unwrap();
                    let c = cx.c.clone().unwrap();
                    if cx.kept.is_none() && matches!(cx.p2, Some(Some(_))) {
                        // the node that signed commitment N went into a `restart`: sign N on a fresh node first
                        if let Ok(l) = fresh(&sd, &c) {
                            if let P2Res::Ok(..) = real_p2(&l, &sd, &c) { cx.kept = Some(l); co.tags.insert("p2next:resigned-first".into()); }
                        }
                    }
                    match cx.kept.as_ref() {
                        Some(live) if c.commit_num + 1 < (1u64 << 48) => {
                            let sd2 = SetupD { point: sd.point.wrapping_add(1), ..sd.clone() };
                            // … same HTLCs, the counterparty's balance one satoshi lower (a fee change: no payment is involved)
                            let c2 = ContentD { commit_num: c.commit_num + 1, to_bc: if c.to_bc > 1000 { c.to_bc - 1 } else { c.to_bc }, ..c.clone() };
                            let _ = live.node.with_channel(&live.id, |chan| { chan.enforcement_state.set_next_counterparty_revoke_num_for_testing(c.commit_num); Ok(()) });
                            match ldk_tx(live, &sd2, &c2) {
                                Err(_) => { co.tags.insert("p2next:no-tx".into()); "skip".into() }
                                Ok((tx, kt2, obs)) => {
                                    if let Some(dev) = structure_deviation(&sd2, &c2, &kt2, obs, &tx) {
                                        co.violations.push(Violation { kind: "canon-structure-differs".into(), desc: format!("next commitment on the same channel: the transaction the signer builds is not the BOLT-3 commitment of the negotiated parameters: {}", dev), at: i });
                                    }
                                    let (_stx, _ws, htlc_of) = render_tx(&sd2, &c2, &kt2, &tx);
                                    let ldk_bytes = cons_serialize(&tx);
                                    let own = own_canonical_bytes(&sd2, &c2, &kt2, obs);
                                    match real_p2(live, &sd2, &c2) {
                                        P2Res::Ok(sig, hsigs) => {
                                            co.tags.insert("p2next:accept".into());
                                            if !verify_commit_sig(&kt2, sd.chan_value, &ldk_bytes, &sig) || !own.as_ref().map(|o| verify_commit_sig(&kt2, sd.chan_value, o, &sig)).unwrap_or(true) {
                                                co.violations.push(Violation { kind: "sig-not-canonical".into(), desc: format!("the phase-2 signature for the NEXT commitment (number {}, per-commitment point id {}) signed on the same channel does not verify against the canonical transaction of that commitment", c2.commit_num, sd2.point), at: i });
                                            }
                                            let hf = htlc_tx_fields(&sd2, &c2, &htlc_of);
                                            if hf.len() != hsigs.len() {
                                                co.violations.push(Violation { kind: "htlc-sig-invalid".into(), desc: format!("next commitment: {} HTLC signatures for {} HTLC outputs", hsigs.len(), hf.len()), at: i });
                                            } else {
                                                for (f, s) in hf.iter().zip(hsigs.iter()) {
                                                    if !verify_htlc_sig(&sd2, &c2, &kt2, &ldk_bytes, f, s) {
                                                        co.violations.push(Violation { kind: "htlc-sig-invalid".into(), desc: format!("next commitment on the same channel: the HTLC signature for output {} does not verify, under the HTLC key of that commitment's point, against its HTLC transaction", f.0), at: i });
                                                        break;
                                                    }
                                                }
                                                if !hf.is_empty() { co.tags.insert("p2next:htlc-sigs-verified".into()); }
                                            }
                                            format!("accept {}", hsigs.len())
                                        }
                                        P2Res::Err(m) => { co.tags.insert(format!("p2next:reject:{}", classify_err(&m))); "reject".into() }
                                        P2Res::Panic => { co.tags.insert("p2next:panic".into()); "reject".into() }
                                    }
                                }
                            }
                        }
                        _ => { co.tags.insert("p2next:skip".into()); "skip".into() }
                    }
                }
                "setup" => {
                    let (ctype, outbound, hd, cd, txid, vout, cv) = parse_setup(&t).expect("setup");
                    if t.len() >= 12 { mode = t[10].parse().unwrap(); point = t[11].parse().unwrap(); }
                    let via = t.len() >= 13 && t[12] == "1";
                    cx.sd = Some(SetupD { ctype, outbound, holder_delay: hd, cp_delay: cd, txid, vout, chan_value: cv, mode, point, via, pre: None });
                    cx.c = None; cx.base = None; cx.live = None; cx.p2 = None; cx.kept = None; cx.restart_next = false;
                    co.tags.insert(format!("type:{}", ctype));
                    co.tags.insert(format!("mode:{}", mode));
                    co.tags.insert(format!("via:{}", if via { "handler" } else { "core" }));
                    "ok".into()
                }
                "content" if !saw_keys => "no-keys".into(),
                "content" => {
                    let c = parse_content(&t).expect("content");
                    let sd = cx.sd.clone().unwrap();
                    cx.c = Some(c.clone()); cx.base = None; cx.live = None; cx.p2 = None; cx.kept = None; cx.restart_next = false;
                    co.tags.insert(format!("htlcs:{}", match c.htlcs.len() { 0 => "0", 1..=5 => "1-5", 6..=15 => "6-15", _ => "16-30" }));
                    match cx.live() {
                        Err(e) => {
                            co.tags.insert("content:no-channel".into());
                            if sd.via && fresh(&SetupD { via: false, ..sd.clone() }, &c).is_ok() {
                                co.violations.push(Violation { kind: "handler-setup-differs".into(), desc: format!("the protocol handler refuses to set up a channel that vls-core sets up from the same negotiated values: {}", e), at: i });
                            }
                            format!("no-channel {}", e)
                        }
                        Ok(live) => match ldk_tx(live, &sd, &c) {
                            Err(e) => { cx.live = None; if e == "panic" { co.tags.insert("content:panic".into()); "panic".into() } else { e } }
                            Ok((tx, kt, obs)) => {
                                if let Some(dev) = structure_deviation(&sd, &c, &kt, obs, &tx) {
                                    co.violations.push(Violation { kind: "canon-structure-differs".into(), desc: format!("the transaction the signer builds for this content is not the BOLT-3 commitment of the negotiated parameters: {}", dev), at: i });
                                }
                                let (stx, ws, htlc_of) = render_tx(&sd, &c, &kt, &tx);
                                let ldk_bytes = cons_serialize(&tx);
                                let own = serialize(&stx, &kt);
                                if own != ldk_bytes {
                                    co.violations.push(Violation { kind: "canon-bytes-differ".into(), desc: format!("harness serialisation of the structured rendering differs from LDK's bytes: {} vs {}", hex::encode(&own), hex::encode(&ldk_bytes)), at: i });
                                }
                                let hf = htlc_tx_fields(&sd, &c, &htlc_of);
                                let hs: Vec<String> = hf.iter().map(|f| format!("{}:{}:{}:{}:{}", f.0, f.1, f.2, f.3.map(|v| v.to_string()).unwrap_or("x".into()), if f.4 { 1 } else { 0 })).collect();
                                // … and LDK's real serialised bytes, compared with the Lean `ser (canon c)`
                                let line = format!("{} | {} | {}", show_tx_head(&stx), hs.join(" "), hex::encode(&ldk_bytes));
                                let own_bytes = own_canonical_bytes(&sd, &c, &kt, obs);
                                cx.base = Some(Base { kt, stx, ws, htlc_of, bytes: ldk_bytes, own: own_bytes });
                                line
                            }
                        },
                    }
                }
                "p2" => {
                    let sd = cx.sd.clone().unwrap();
                    let c = cx.c.clone().unwrap();
                    cx.live = None;
                    cx.kept = None;
                    let built = if cx.restart_next {
                        co.tags.insert("p2:after-restart".into());
                        fresh_base(&sd, &c).and_then(|l| restore(l, &sd, &c))
                    } else { fresh(&sd, &c) };
                    let after_restart = cx.restart_next;
                    cx.restart_next = false;
                    let l2: String = match built {
                        Err(_) => { cx.p2 = Some(None); co.tags.insert("p2:no-channel".into()); "reject".into() }
                        Ok(live) => { let r2 = real_p2(&live, &sd, &c); match r2 {
                            P2Res::Ok(sig, hsigs) => {
                                co.tags.insert("p2:accept".into());
                                if sd.via { co.tags.insert("p2:accept:via-handler".into()); }
                                cx.p2 = Some(Some(sig));
                                cx.p2_hsigs = hsigs.clone();
                                if let Some(b) = &cx.base {
                                    if !verify_commit_sig(&b.kt, sd.chan_value, &serialize(&b.stx, &b.kt), &sig) {
                                        co.violations.push(Violation { kind: "sig-not-canonical".into(), desc: "phase-2 signature does not verify under the funding key against the canonical transaction".into(), at: i });
                                    }
                                    // … and against the commitment the harness builds itself from the negotiated (wire) values
                                    if let Some(own) = &b.own {
                                        if !verify_commit_sig(&b.kt, sd.chan_value, own, &sig) {
                                            co.violations.push(Violation { kind: "sig-not-canonical".into(), desc: format!("phase-2 signature does not verify against the BOLT-3 transaction built from the negotiated values (delays {}/{}, outbound {}, value {}, vout {}, type {}, via handler {})", sd.holder_delay, sd.cp_delay, sd.outbound, sd.chan_value, sd.vout, sd.ctype, sd.via), at: i });
                                        }
                                    }
                                    let hf = htlc_tx_fields(&sd, &c, &b.htlc_of);
                                    if hf.len() != hsigs.len() {
                                        co.violations.push(Violation { kind: "htlc-sig-invalid".into(), desc: format!("{} HTLC signatures for {} HTLC outputs", hsigs.len(), hf.len()), at: i });
                                    } else {
                                        for (f, s) in hf.iter().zip(hsigs.iter()) {
                                            if !verify_htlc_sig(&sd, &c, &b.kt, &b.bytes, f, s) {
                                                co.violations.push(Violation { kind: "htlc-sig-invalid".into(), desc: format!("HTLC signature for output {} does not verify against the HTLC transaction built from the canonical commitment (feerate {}, type {})", f.0, c.feerate, sd.ctype), at: i });
                                                break;
                                            }
                                        }
                                        if !hf.is_empty() { co.tags.insert("htlc-sigs-verified".into()); }
                                    }
                                }
                                if !c.htlcs.is_empty() { saw_accept_htlc = true; }
                                // the content the signer recorded as validated must be the content it signed
                                let rec = live.node.with_channel(&live.id, |chan| Ok(chan.enforcement_state.current_counterparty_commit_info.clone())).ok().flatten();
                                let key = |h: &HTLCInfo2| (h.value_sat, h.payment_hash.0, h.cltv_expiry);
                                let (mut eo, mut er) = c.lists();
                                eo.sort_by_key(key); er.sort_by_key(key);
                                let ok = match &rec {
                                    None => false,
                                    Some(r) => {
                                        let (mut ro, mut rr) = (r.offered_htlcs.clone(), r.received_htlcs.clone());
                                        ro.sort_by_key(key); rr.sort_by_key(key);
                                        r.is_counterparty_broadcaster && r.to_countersigner_value_sat == c.to_cs && r.to_broadcaster_value_sat == c.to_bc
                                            && r.feerate_per_kw == c.feerate && ro == eo && rr == er
                                    }
                                };
                                if !ok {
                                    co.violations.push(Violation { kind: "validated-content-differs".into(), desc: format!("phase 2 signed content (to_holder {}, to_counterparty {}, {} HTLCs, feerate {}) but validated/recorded {:?}", c.to_cs, c.to_bc, c.htlcs.len(), c.feerate, rec), at: i });
                                }
                                cx.kept = Some(live);
                                format!("accept {}", hsigs.len())
                            }
                            P2Res::Err(m) => {
                                cx.p2 = Some(None);
                                if std::env::var("C04_DEBUG").is_ok() { eprintln!("p2 reject: {}", m); }
                                co.tags.insert(format!("p2:reject:{}", classify_err(&m)));
                                "reject".into()
                            }
                            P2Res::Panic => { cx.p2 = Some(None); co.tags.insert("p2:panic".into()); "reject".into() }
                        } },
                    };
                    // C04_restart_same_sig: a restart must not change the verdict (the op carries the verdict of
                    // the real phase 2 on an identical node that was not restarted)
                    if after_restart && (t[1] == "ok") != l2.starts_with("accept") {
                        co.violations.push(Violation { kind: "restart-changes-result".into(), desc: format!("phase 2 without restart: {}, after persist + restore: {}", t[1], l2), at: i });
                    }
                    l2
                }
                "restart" => {
                    let sd = cx.sd.clone().unwrap();
                    match cx.c.clone() {
                        None => { cx.restart_next = true; }
                        Some(c) => {
                            if let Some(k) = cx.kept.take() {
                                // the very node that accepted phase 2, restored: `p1retry` re-signs on it
                                co.tags.insert("restart:after-p2".into());
                                cx.retry = match restore(k, &sd, &c) { Ok(l) => Some(l), Err(e) => { if std::env::var("C04_DEBUG").is_ok() { eprintln!("restore failed: {}", e); } co.tags.insert("restart:restore-failed".into()); None } };
                            }
                            if let Some(l) = cx.live.take() {
                                co.tags.insert("restart:live".into());
                                cx.live = restore(l, &sd, &c).ok();
                            }
                            // every channel built from now on goes through persist + restore before it signs
                            cx.restart_next = true;
                        }
                    }
                    "ok".into()
                }
                "p1retry" => {
                    // implementation only: phase 1 on the canonical tx, on the restored node that already signed
                    // this commitment in phase 2 (a retry).  The validator may refuse a retry for reasons of its
                    // own (payment routing state); what it must not do is refuse the canonical tx as non-canonical
                    // or return a different signature.
                    match (cx.retry.take(), cx.base.as_ref(), cx.p2.clone()) {
                        (Some(live), Some(b), Some(Some(s2))) => {
                            let sd = cx.sd.clone().unwrap();
                            let c = cx.c.clone().unwrap();
                            let wsb: Vec<Vec<u8>> = b.ws.iter().map(|w| w.as_ref().map(|t| script_bytes(t, &b.kt)).unwrap_or_default()).collect();
                            let tx: Transaction = deserialize(&b.bytes).expect("canonical bytes");
                            match real_p1(&live, &sd, &c, &tx, &wsb) {
                                P1Res::Ok(sig, _, _, canon_bytes, _) => {
                                    co.tags.insert("p1retry:accept".into());
                                    if sig != s2 {
                                        co.violations.push(Violation { kind: "phase-sig-differs".into(), desc: "after a restart phase-1(canon) returns a signature different from the one phase 2 returned before the restart".into(), at: i });
                                    }
                                    if !verify_commit_sig(&b.kt, sd.chan_value, &canon_bytes, &sig) {
                                        co.violations.push(Violation { kind: "sig-not-canonical".into(), desc: "after a restart the phase-1 signature does not verify against the canonical tx with the negotiated channel value".into(), at: i });
                                    }
                                    "accept".into()
                                }
                                P1Res::Err(m) => {
                                    let cl = classify_err(&m);
                                    co.tags.insert(format!("p1retry:reject:{}", cl));
                                    if (cl == "mismatch" || cl == "decode") && sd.ctype != 'a' && well_formed(&sd, &c) {
                                        co.violations.push(Violation { kind: "phase-disagree".into(), desc: format!("after a restart phase 1 refuses the canonical tx phase 2 signed: {}", m), at: i });
                                    }
                                    "reject".into()
                                }
                                P1Res::Panic => { co.tags.insert("p1retry:panic".into()); "reject".into() }
                            }
                        }
                        (r, b, p) => { co.tags.insert(format!("p1retry:skip:{}{}{}", r.is_some() as u8, b.is_some() as u8, p.is_some() as u8)); "skip".into() }
                    }
                }
                "p1" => {
                    if cx.base.is_none() { "reject".into() } else {
                        let m: Vec<&str> = t[2..].to_vec();
                        let (stx2, ws2) = { let b = cx.base.as_ref().unwrap(); match mutate(&b.stx, &b.ws, &m) { Some(x) => x, None => (b.stx.clone(), b.ws.clone()) } };
                        let kt = cx.base.as_ref().unwrap().kt.clone();
                        let txb = serialize(&stx2, &kt);
                        let wsb: Vec<Vec<u8>> = ws2.iter().map(|w| w.as_ref().map(|t| script_bytes(t, &kt)).unwrap_or_default()).collect();
                        match deserialize::<Transaction>(&txb) {
                            Err(_) => { co.tags.insert("p1:undecodable".into()); "reject".into() }
                            Ok(tx) => {
                                let label = if m[0] == "tpl" || m[0] == "wit" || m[0] == "spk" { format!("{}-{}", m[0], m[2]) } else { m[0].to_string() };
                                let l = self.do_p1(&mut cx, &mut co, i, &tx, &txb, &wsb, m[0] == "none", &label);
                                if m[0] != "none" && l == "reject" && t[1] == "ok" { saw_reject_mut = true; }
                                l
                            }
                        }
                    }
                }
                "p1raw" => {
                    if cx.base.is_none() { "reject".into() } else {
                        let (kt, mut txb, mut wsb) = { let b = cx.base.as_ref().unwrap(); (b.kt.clone(), b.bytes.clone(), b.ws.iter().map(|w| w.as_ref().map(|t| script_bytes(t, &b.kt)).unwrap_or_default()).collect::<Vec<Vec<u8>>>()) };
                        let _ = kt;
                        let label;
                        if t[1] == "tx" {
                            let off: usize = t[2].parse().unwrap(); let x: u8 = t[3].parse().unwrap();
                            if off < txb.len() { txb[off] ^= x; }
                            label = "raw-tx";
                        } else {
                            let wi: usize = t[2].parse().unwrap(); let off: usize = t[3].parse().unwrap(); let x: u8 = t[4].parse().unwrap();
                            if wi < wsb.len() && off < wsb[wi].len() { wsb[wi][off] ^= x; }
                            label = "raw-ws";
                        }
                        match deserialize::<Transaction>(&txb) {
                            Err(_) => { co.tags.insert("p1raw:undecodable".into()); "undecodable".into() }
                            Ok(tx) => {
                                // rust-bitcoin may re-serialise differently only if the flip hit a non-canonical varint; compare what the signer sees
                                let seen = cons_serialize(&tx);
                                let l = self.do_p1(&mut cx, &mut co, i, &tx, &seen, &wsb, false, label);
                                if l == "reject" { saw_reject_mut = true; }
                                l
                            }
                        }
                    }
                }
                _ => "bad-op".into(),
            };
            co.out.push(line);
        }
        co.nontrivial = saw_accept_htlc && saw_reject_mut;
        if let Ok(path) = std::env::var("C04_TRACE") {
            use std::io::Write;
            if let Ok(mut f) = std::fs::OpenOptions::new().create(true).append(true).open(path) {
                let _ = writeln!(f, "CASE");
                for (o, l) in ops.iter().zip(co.out.iter()) { let _ = writeln!(f, "{}\t{}", o, l); }
            }
        }
        co
    }
}

fn gen_setup_content(rng: &mut Rng) -> (SetupD, ContentD) {
    let ctype = *rng.pick(&['s', 'z', 's', 'z', 'l', 'a']);
    let mode = *rng.pick(&[0u8, 0, 0, 1, 1, 2, 3, 4, 5, 6, 7]);
    let mode = if (ctype == 'l' || ctype == 'a') && mode == 0 { if rng.chance(1, 2) { 1 } else { 0 } } else { mode };
    let delay = |rng: &mut Rng, lenient: bool| -> u16 {
        match rng.below(10) {
            0 => 2016,
            1 => rng.range(2001, 2016) as u16,
            2 if lenient => *rng.pick(&[0u16, 0, 1, 16, 17, 2017, 65535]),
            3 => 4,
            4 => 144,
            _ => rng.range(5, 1000) as u16,
        }
    };
    let holder_delay = delay(rng, mode >= 1);
    let cp_delay = if rng.chance(1, 4) { holder_delay } else { delay(rng, mode >= 1) };
    let chan_value = match rng.below(5) { 0 => 3_000_000, 1 => rng.range(100_000, 1_000_000), 2 => 1_000_000_000, _ => rng.range(1_000_000, 20_000_000) };
    // a third of the channels are set up and signed for through the protocol handler (wire messages)
    let via = rng.chance(1, 3);
    let vout = match rng.below(8) { 0 => 65535, 1 => 65536 + rng.below(3) as u32, 2 => 0, 3 => rng.range(256, 65534) as u32, _ => rng.below(20) as u32 };
    let sd = SetupD {
        ctype, outbound: rng.chance(1, 2), holder_delay, cp_delay,
        txid: rng.range(1, 250) as u8,
        vout: if via { vout % 65536 } else { vout }, // funding_txout is a u16 on the wire
        // bit 3: the OnchainValidator factory around the SimpleValidator (a quarter of the cases)
        chan_value, mode: mode | if rng.chance(1, 4) { 8 } else { 0 }, point: rng.range(10, 60) as u8, via, pre: None,
    };
    let feerate: u32 = match rng.below(8) { 0 => 0, 1 => 253, 2 => 1000, 3 => 7500, 4 => 25_000, 5 => rng.below(100_000) as u32, _ => rng.range(253, 5000) as u32 };
    let n = match rng.below(20) { 0 | 1 | 2 => 0, 3..=12 => rng.range(1, 5), 13..=17 => rng.range(6, 15), _ => rng.range(16, 30) } as usize;
    // a commitment with a single output (one balance, no HTLC): with anchors exactly one anchor exists
    let lone = rng.chance(1, 8);
    let n = if lone { 0 } else { n };
    let w = |off: bool| -> u64 { match (off, ctype == 'z') { (true, true) => 666, (true, false) => 663, (false, true) => 706, (false, false) => 703 } };
    // policy-commitment-outputs-trimmed: MIN_CHAN_DUST_LIMIT (354) for zero-fee HTLCs, MIN_DUST_LIMIT (330) + HTLC-tx fee otherwise
    let thr = |off: bool| -> u64 { if ctype == 'z' { 354 } else { 330 + feerate as u64 * w(off) / 1000 } };
    let mut htlcs: Vec<(bool, u64, i64, u32)> = Vec::new();
    // contents below the dust thresholds are refused by the validator before anything is built: keep them to a quarter of the cases
    let dusty = rng.chance(1, 4);
    for _ in 0..n {
        if !htlcs.is_empty() && rng.chance(1, 6) {
            // duplicate of an earlier HTLC, possibly differing in one field
            let mut h = *rng.pick(&htlcs);
            match rng.below(5) { 0 => h.3 = h.3.wrapping_add(1), 1 => h.1 += 1, 2 => { h.0 = !h.0; if !dusty { h.1 = h.1.max(thr(h.0)); } } _ => {} }
            htlcs.push(h);
            continue;
        }
        let off = rng.chance(1, 2);
        let value = match rng.below(10) {
            0 => thr(off),
            1 => thr(off) + 1,
            2 if dusty => thr(off).saturating_sub(1),
            3 => thr(!off).max(thr(off)),
            4 if dusty => rng.range(1, 400),
            _ => rng.range(thr(off), thr(off) + 50_000),
        };
        let hash = if rng.chance(1, 4) { rng.range(1, 6) as i64 } else { rng.range(1, 100_000) as i64 };
        let cltv = match rng.below(12) {
            0 => 499_999_999,
            1 if mode >= 1 => 500_000_000,
            2 if mode >= 1 => *rng.pick(&[(1u32 << 31) - 1, 1u32 << 31, u32::MAX]),
            3 => rng.below(17) as u32,
            4 => *rng.pick(&[127u32, 128, 255, 256, 32767, 32768, 65535, 65536, 8388607, 8388608]),
            _ => rng.range(100, 900_000) as u32,
        };
        htlcs.push((off, value, hash, cltv));
    }
    let sum_htlc: u64 = htlcs.iter().map(|h| h.1).sum();
    let weight = (if is_anchors(ctype) { 1124 } else { 724 }) + 172 * n as u64;
    let rate = match rng.below(10) { 0 => 253, 1 => 252, 2 => 333_333, 3 => 400_000, _ => rng.range(300, 20_000) };
    let fee = rate * weight / 1000 + rng.below(2);
    let anchors = if ldk_anchors(ctype) { 660 } else { 0 };
    let avail = chan_value.saturating_sub(sum_htlc + fee + anchors);
    let (to_cs, to_bc) = match if lone { rng.below(2) } else { rng.below(12) } {
        0 => (0, avail),
        1 => (avail, 0),
        2 => (if dusty { 353 } else { *rng.pick(&[354u64, 355]) }, avail.saturating_sub(355)),
        3 => (avail.saturating_sub(355), if dusty { 353 } else { *rng.pick(&[354u64, 355]) }),
        4 => (avail / 2, avail - avail / 2), // equal or adjacent values
        5 if sum_htlc > 0 => { let v = htlcs[0].1; (v, avail.saturating_sub(v)) } // same value as an HTLC
        _ => { let a = rng.range(354.min(avail), avail.saturating_sub(354).max(354.min(avail))); (a, avail - a.min(avail)) }
    };
    let commit_num = match rng.below(10) {
        0 => 1, 1 => 23, 2 => (1u64 << 48) - 1, 3 => (1u64 << 24) - 1 + rng.below(3), 4 => rng.range(1, (1u64 << 48) - 1),
        5 if rng.chance(1, 4) => 1u64 << 48,
        _ => rng.range(1, 1_000_000),
    };
    (sd, ContentD { commit_num, feerate, to_cs, to_bc, htlcs })
}

/// Build the op lines of one case (consults the implementation for keys, ranks and policy verdicts).
fn build_case(sd: &SetupD, c: &ContentD, rng: &mut Rng, tier: Tier) -> Option<Vec<String>> {
    // Handler mode: if the handler refuses a setup that vls-core accepts for the same values, the case is still
    // generated (keys from the core-level channel: same seed, peer and dbid give the same channel keys), so that
    // the refusal shows up in the run instead of silently thinning the handler share.
    let live = match fresh(sd, c) {
        Ok(l) => l,
        Err(_) if sd.via => fresh(&SetupD { via: false, ..sd.clone() }, c).ok()?,
        Err(_) => return None,
    };
    let (kt, obs) = keys_only(&live, sd);
    let mut ops = vec![
        format!("setup {} {} {} {} {} {} {} {} {} {} {} {}", sd.ctype, if sd.outbound { 1 } else { 0 }, sd.holder_delay, sd.cp_delay, sd.txid, sd.vout, sd.chan_value, obs, if nonstrict(sd.mode) { 0 } else { 1 }, sd.mode, sd.point, if sd.via { 1 } else { 0 }),
        keys_line(&kt),
        filter_line(sd.mode),
    ];
    // a quarter of the cases: a second setup of the ready channel, identical or with exactly one field changed
    if rng.chance(1, 4) {
        let (f, v): (&str, u64) = match rng.below(8) {
            0 => ("same", 0),
            1 => ("outbound", if sd.outbound { 0 } else { 1 }),
            2 => ("hdelay", (sd.holder_delay as u64 + 1) % 65536),
            3 => ("cdelay", (sd.cp_delay as u64 + 1) % 65536),
            4 => ("txid", (sd.txid as u64 % 250) + 1),
            5 => ("vout", (sd.vout as u64 + 1) % 65536),
            6 => ("value", sd.chan_value + 1),
            _ => ("ctype", match sd.ctype { 'l' => 1, 's' => 3, 'a' => 3, _ => 1 }),
        };
        ops.push(format!("resetup {} {}", f, v));
    }
    ops.push(content_line(c));
    let base_pol = pol_of(sd, c);
    // restarts (real persister + Node::restore_node): before the first signing request and/or between the phases
    let (r1, r2, r3) = (rng.chance(1, 3), rng.chance(1, 3), rng.chance(1, 3));
    if r1 { ops.push("restart".into()); }
    ops.push(format!("p2 {}", base_pol.s()));
    if r2 { ops.push("restart".into()); ops.push("p1retry".into()); }
    ops.push(format!("p1 {} none", base_pol.s()));
    // the structured base transaction (from the real builder) to aim mutations at
    let (tx, _, _) = match ldk_tx(&live, sd, c) { Ok(x) => x, Err(_) => return Some(ops) };
    let (stx, ws, _) = render_tx(sd, c, &kt, &tx);
    let n = stx.outs.len();
    let mut muts: Vec<String> = Vec::new();
    let lt = stx.locktime as u64;
    let sq = stx.inputs[0].sequence as u64;
    for m in [
        "ver 1".to_string(), "ver 3".into(), "ver 0".into(), format!("ver {}", 2u64 + (1 << 31)),
        format!("lock {}", lt ^ 1), format!("lock {}", lt ^ (1 << 23)), format!("lock {}", lt ^ (1 << 29)), "lock 0".into(),
        format!("seq {}", sq ^ 1), format!("seq {}", sq ^ (1 << 31)), format!("seq {}", 0xffff_ffffu32),
        format!("intxid {}", (sd.txid as u64 % 250) + 1), format!("invout {}", (sd.vout % 65536) ^ 1), format!("invout {}", sd.vout),
        format!("invout {}", (sd.vout % 65536) + 65536),
        "scriptsig".into(), "witness".into(), "addin".into(),
        "addwpkh 1000 9".into(), "addwpkh 330 5".into(), "addunk 1000 1".into(), "wslen".into(), "wsadd".into(),
    ] { muts.push(m); }
    for i in 0..n {
        let v = stx.outs[i].value;
        muts.push(format!("val {} {}", i, v + 1));
        muts.push(format!("val {} {}", i, v.saturating_sub(1)));
        if rng.chance(1, 3) { muts.push(format!("val {} 0", i)); }
        muts.push(format!("drop {}", i));
        muts.push(format!("dup {}", i));
        muts.push(format!("wsdrop {}", i));
        if i + 1 < n { muts.push(format!("swap {} {}", i, i + 1)); }
        if n > 2 { let j = rng.below(n as u64) as usize; if j != i { muts.push(format!("swap {} {}", i, j)); } }
        let fields: Vec<(&str, Vec<i64>)> = match &stx.outs[i].spk {
            Spk::Wpkh(_) => { muts.push(format!("retpl {} remoteA", i)); vec![("key", vec![9, 0, 6]), ("unknown", vec![3])] }
            Spk::Wsh(Tpl::Local { delay, .. }) => vec![
                ("delay", vec![delay + 1, delay - 1, sd.cp_delay as i64, -1, 0, 2016, 2017, 16, 17, 1 << 31]),
                ("rev", vec![9, 0, 2]), ("delayed", vec![9, 0, 1]), ("unknown", vec![1])],
            Spk::Wsh(Tpl::Recv { cltv, .. }) => vec![
                ("cltv", vec![cltv + 1, cltv - 1, -1, 0]), ("rev", vec![9, 2]), ("k1", vec![9, 3, 0]), ("k2", vec![9, 4]),
                ("hash", vec![7_000_001]), ("hashlen", vec![19, 21]), ("csv", vec![0]), ("unknown", vec![2])],
            Spk::Wsh(Tpl::Off { .. }) => vec![
                ("rev", vec![9, 2]), ("k1", vec![9, 3]), ("k2", vec![9, 4, 0]),
                ("hash", vec![7_000_002]), ("hashlen", vec![19, 21]), ("csv", vec![0]), ("unknown", vec![2])],
            Spk::Wsh(Tpl::Anchor(k)) => vec![("key", vec![9, 0, if *k == 6 { 7 } else { 6 }]), ("unknown", vec![4])],
            Spk::Wsh(Tpl::RemoteA(_)) => { muts.push(format!("retpl {} wpkh", i)); vec![("key", vec![9, 0, 7]), ("unknown", vec![5])] }
            _ => vec![],
        };
        for (f, vals) in fields {
            for v in vals {
                muts.push(format!("tpl {} {} {}", i, f, v));
                muts.push(format!("wit {} {} {}", i, f, v));
                muts.push(format!("spk {} {} {}", i, f, v));
            }
        }
    }
    // sample
    let want = if tier == Tier::Quick { 26 } else { 60 };
    let mut chosen: Vec<String> = Vec::new();
    if muts.len() <= want { chosen = muts; } else {
        // always keep a few of the sharpest ones when present
        let mut sharp: Vec<String> = muts.iter().filter(|m| m.contains(" delay ") && (m.starts_with("tpl") )).take(2).cloned().collect();
        sharp.extend(muts.iter().filter(|m| m.starts_with("retpl") || *m == "wsadd").cloned());
        chosen.extend(sharp);
        while chosen.len() < want {
            let m = rng.pick(&muts).clone();
            if !chosen.contains(&m) { chosen.push(m); }
        }
    }
    let mut pol_cache: BTreeMap<(u64, u64), Pol> = BTreeMap::new();
    pol_cache.insert((c.to_cs, c.to_bc), base_pol);
    let restart_at = if r3 && !chosen.is_empty() { Some(rng.below(chosen.len() as u64) as usize) } else { None };
    for (mi, m) in chosen.into_iter().enumerate() {
        if restart_at == Some(mi) { ops.push("restart".into()); }
        let toks: Vec<&str> = m.split_whitespace().collect();
        let pol = match mutate(&stx, &ws, &toks) {
            None => base_pol,
            Some((s2, _)) => {
                let (cs, bc) = predicted_balances(sd, &s2);
                *pol_cache.entry((cs, bc)).or_insert_with(|| {
                    let mut c2 = c.clone();
                    c2.to_cs = cs;
                    c2.to_bc = bc;
                    pol_of(sd, &c2)
                })
            }
        };
        ops.push(format!("p1 {} {}", pol.s(), m));
    }
    // raw byte flips (implementation only)
    let txb = cons_serialize(&tx);
    let nraw = if tier == Tier::Quick { 10 } else { 40 };
    for _ in 0..nraw {
        let off = rng.below(txb.len() as u64);
        ops.push(format!("p1raw tx {} {}", off, 1u8 << rng.below(8)));
    }
    let nws = if tier == Tier::Quick { 6 } else { 24 };
    for _ in 0..nws {
        if n == 0 { break; }
        let wi = rng.below(n as u64) as usize;
        let len = ws[wi].as_ref().map(|t| script_bytes(t, &kt).len()).unwrap_or(0);
        if len == 0 { continue; }
        ops.push(format!("p1raw ws {} {} {}", wi, rng.below(len as u64), 1u8 << rng.below(8)));
    }
    // the raw second-stage entry point on HTLC transactions of this commitment (implementation only)
    let n_htlc_outs = c.htlcs.len();
    if n_htlc_outs > 0 && sd.ctype != 'a' {
        let muts = ["ver", "seq", "seqhi", "lock", "val", "vout", "delay", "cdelay", "rev", "delayed", "addout", "spk"];
        for _ in 0..(if tier == Tier::Quick { 2 } else { 4 }) {
            let k = rng.below(n_htlc_outs as u64);
            ops.push(format!("htlcraw {} none", k));
            for _ in 0..3 { ops.push(format!("htlcraw {} {}", k, rng.pick(&muts))); }
            // the same HTLC transaction, but of another commitment: per-commitment point id + 1..3 (keys, scripts and
            // the verification key follow the point of the request; sent to the node that signed this commitment)
            let d = rng.range(1, 3);
            ops.push(format!("htlcraw {} none {}", k, d));
            ops.push(format!("htlcraw {} {} {}", k, rng.pick(&muts), d));
        }
    }
    // the next commitment on the node that signed this one, then the HTLC transactions of the old and of the new
    // commitment on that node (the state now records the point of the new one)
    ops.push("p2next".into());
    if n_htlc_outs > 0 && sd.ctype != 'a' {
        let k = rng.below(n_htlc_outs as u64);
        ops.push(format!("htlcraw {} none 0 kept", k));
        ops.push(format!("htlcraw {} none 1 kept", k));
    }
    Some(ops)
}

pub fn groups() -> Vec<Box<dyn Group>> {
    vec![Box::new(C04), Box::new(parse::C04Parse)]
}
