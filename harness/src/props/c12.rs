//! C12 — velocity limits bound spending in every time window, across restarts.
//!
//! Two groups against the same Lean model (`velocity`):
//!  * `C12Unit`: `lightning_signer::util::velocity::VelocityControl` driven directly;
//!  * `C12Node`: a real `Node` with a `ManualClock`, approvals through `add_keysend`,
//!    restarts through the real persister (`KVVPersister<MemoryKVVStore>`) and `Node::restore_node`.
//! Monitor (both): brute-force sliding-window oracle over the approved (time, amount) log.
use crate::common::*;
use lightning_signer::bitcoin::Network;
use lightning_signer::lightning::types::payment::PaymentHash;
use lightning_signer::node::{Node, NodeConfig, NodeServices};
use lightning_signer::persist::Persist;
use lightning_signer::policy::simple_validator::{make_default_simple_policy, SimpleValidatorFactory};
use lightning_signer::signer::derive::KeyDerivationStyle;
use lightning_signer::util::clock::ManualClock;
use lightning_signer::util::test_utils::key::make_test_pubkey;
use lightning_signer::util::test_utils::*;
use lightning_signer::util::velocity::{
    VelocityControl, VelocityControlIntervalType, VelocityControlSpec,
};
use std::sync::Arc;
use std::time::Duration;
use vls_persist::kvv::memory::MemoryKVVStore;
use vls_persist::kvv::{JsonFormat, KVVPersister};

fn digest(v: &VelocityControl) -> String {
    let b: Vec<String> = v.buckets.iter().map(|x| x.to_string()).collect();
    format!("{} {} [{}] {}", v.start_sec, v.bucket_interval, b.join(","), v.limit)
}

fn itype(s: &str) -> Option<VelocityControlIntervalType> {
    match s {
        "h" => Some(VelocityControlIntervalType::Hourly),
        "d" => Some(VelocityControlIntervalType::Daily),
        "u" => Some(VelocityControlIntervalType::Unlimited),
        _ => None,
    }
}

/// Sliding-window oracle: `log` = approved (time, amount); window length `w` (closed interval).
/// Returns the worst window (start, sum) exceeding `limit`, if any.
fn window_violation(log: &[(u64, u64)], w: u64, limit: u64) -> Option<(u64, u128)> {
    for (i, (t0, _)) in log.iter().enumerate() {
        let mut sum: u128 = 0;
        for (t, a) in &log[i..] {
            if *t >= *t0 && (*t - *t0) <= w {
                sum += *a as u128;
            }
        }
        // also earlier entries with the same timestamp
        for (t, a) in &log[..i] {
            if *t == *t0 {
                sum += *a as u128;
            }
        }
        if sum > limit as u128 {
            return Some((*t0, sum));
        }
    }
    None
}

fn gen_times_amounts(rng: &mut Rng, bi: u64, n: u64, limit: u64, len: usize, tier: Tier) -> Vec<(u64, u64)> {
    let mut t: u64 = match rng.below(4) {
        0 => 0,
        1 => rng.below(bi * n * 2),
        2 => 1_000_000 + rng.below(100_000),
        _ => bi * rng.below(1000),
    };
    let mut v = Vec::new();
    for _ in 0..len {
        let dt = match rng.below(10) {
            0 | 1 | 2 => 0,
            3 | 4 => rng.below(bi.max(1)),
            5 => bi - (t % bi),                       // exactly to the next boundary
            6 => (bi - (t % bi)).saturating_sub(1),   // one second before the boundary
            7 => bi * rng.range(1, n),
            8 => bi * (n - 1) + rng.below(3),
            _ => rng.below(bi * n * 2 + 1),
        };
        t = t.saturating_add(dt);
        let amt = match rng.below(10) {
            0 => 0,
            1 => limit,
            2 => limit.saturating_add(1),
            3 => limit / 2,
            4 => limit / 2 + 1,
            5 => rng.below(limit.max(1)),
            6 => {
                if tier == Tier::Thorough || rng.chance(1, 2) { u64::MAX - rng.below(3) } else { 1 }
            }
            7 => 1,
            _ => rng.below(limit / 3 + 2),
        };
        v.push((t, amt));
    }
    v
}

pub struct C12Unit;

impl Group for C12Unit {
    fn property(&self) -> &'static str { "C12" }
    fn model(&self) -> Option<&'static str> { Some("velocity") }
    fn rule(&self) -> &'static str {
        "unit: random VelocityControl configurations (custom intervals and Hourly/Daily/Unlimited specs, limits \
         around 0, small, 2^32, u64::MAX-1/MAX) with non-decreasing timestamps placed on/around bucket boundaries and \
         amounts at 0, limit/2(+1), limit, limit+1, u64::MAX region, interleaved with update_spec/restart/clear/velocity; \
         a case is non-trivial when it contains at least one approved and one refused insert"
    }
    fn budget(&self, tier: Tier) -> usize { if tier == Tier::Quick { 1500 } else { 60000 } }
    fn corpus(&self) -> Vec<Vec<String>> {
        vec![
            // the repository's own unit test scenario
            "new 100 10 4|insert 1100 90|insert 1101 11|insert 1101 10|insert 1139 90|insert 1140 90|insert 1150 5|insert 1180 80|insert 1190 1|velocity"
                .split('|').map(|s| s.to_string()).collect(),
            // saturation at the unlimited setting
            "spec 0 u|insert 0 18446744073709551614|insert 0 1|insert 0 1|velocity".split('|').map(|s| s.to_string()).collect(),
            // restart between approvals keeps the count (defect F6 witness shape)
            "spec 1000 h|insert 1000000 900|restart 1000 h|insert 1000000 900|velocity".split('|').map(|s| s.to_string()).collect(),
            // timestamps going backwards: arithmetic panic in the implementation
            "new 100 10 4|insert 1100 1|insert 5 1".split('|').map(|s| s.to_string()).collect(),
        ]
    }
    fn gen_case(&self, rng: &mut Rng, tier: Tier) -> Vec<String> {
        let mut ops = Vec::new();
        let limit = match rng.below(8) {
            0 => 0,
            1 => 1,
            2 => rng.range(2, 1000),
            3 => 1u64 << 32,
            4 => u64::MAX - 1,
            5 => u64::MAX,
            _ => rng.range(1000, 10_000_000),
        };
        let (bi, n, spec_t);
        if rng.chance(1, 2) {
            bi = *rng.pick(&[1u64, 2, 7, 10, 300, 3600]);
            n = rng.range(1, 6);
            spec_t = None;
            ops.push(format!("new {} {} {}", limit, bi, n));
        } else {
            let t = *rng.pick(&["h", "d", "h", "d", "u"]);
            let (b, k) = if t == "d" { (3600, 24) } else { (300, 12) };
            bi = b;
            n = k;
            spec_t = Some(t);
            ops.push(format!("spec {} {}", limit, t));
        }
        let len = rng.range(2, if tier == Tier::Quick { 14 } else { 40 }) as usize;
        for (t, a) in gen_times_amounts(rng, bi, n, limit, len, tier) {
            match rng.below(20) {
                0 => ops.push("velocity".into()),
                1 => {
                    // restart with the same policy spec (or, rarely, a changed one)
                    let ty = spec_t.unwrap_or("h");
                    let l = if rng.chance(1, 5) { limit.wrapping_add(1) } else { limit };
                    ops.push(format!("restart {} {}", l, ty));
                }
                2 => {
                    let ty = *rng.pick(&["h", "d", "u"]);
                    ops.push(format!("update_spec {} {}", limit, ty));
                }
                3 => {
                    if rng.chance(1, 4) { ops.push("clear".into()) }
                }
                _ => {}
            }
            ops.push(format!("insert {} {}", t, a));
        }
        ops.push("velocity".into());
        ops
    }
    fn exec_case(&self, ops: &[String]) -> CaseOut {
        let mut co = CaseOut::default();
        let mut v = VelocityControl::new_with_intervals(0, 1, 1);
        // approved log since the last reset of the control (reset = new/spec/changed update_spec/clear)
        let mut log: Vec<(u64, u64)> = Vec::new();
        let (mut seen_true, mut seen_false) = (false, false);
        for (i, op) in ops.iter().enumerate() {
            let t: Vec<&str> = op.split_whitespace().collect();
            let line = match t.as_slice() {
                ["new", l, bi, n] => {
                    v = VelocityControl::new_with_intervals(l.parse().unwrap(), bi.parse().unwrap(), n.parse().unwrap());
                    log.clear();
                    format!("ok {}", digest(&v))
                }
                ["spec", l, ty] => {
                    v = VelocityControl::new(VelocityControlSpec { limit_msat: l.parse().unwrap(), interval_type: itype(ty).unwrap() });
                    log.clear();
                    format!("ok {}", digest(&v))
                }
                ["insert", now, amt] => {
                    let now: u64 = now.parse().unwrap();
                    let amt: u64 = amt.parse().unwrap();
                    let mut w = v.clone();
                    match std::panic::catch_unwind(std::panic::AssertUnwindSafe(|| { let ok = w.insert(now, amt); (w, ok) })) {
                        Err(_) => { co.tags.insert("insert:panic".into()); "panic".to_string() }
                        Ok((w, ok)) => {
                            v = w;
                            if ok {
                                seen_true = true;
                                co.tags.insert("insert:true".into());
                                log.push((now, amt));
                                if v.limit != u64::MAX {
                                    let wlen = (v.buckets.len() as u64 - 1) * v.bucket_interval as u64;
                                    if let Some((t0, sum)) = window_violation(&log, wlen, v.limit) {
                                        co.violations.push(Violation {
                                            kind: "window-exceeds-limit".into(),
                                            desc: format!("approved {} msat within window [{}, {}] (length {} s) with limit {}", sum, t0, t0 + wlen, wlen, v.limit),
                                            at: i,
                                        });
                                    }
                                }
                            } else {
                                seen_false = true;
                                co.tags.insert("insert:false".into());
                            }
                            format!("{} {}", ok, digest(&v))
                        }
                    }
                }
                ["velocity"] => v.velocity().to_string(),
                ["update_spec", l, ty] => {
                    let spec = VelocityControlSpec { limit_msat: l.parse().unwrap(), interval_type: itype(ty).unwrap() };
                    if !v.spec_matches(&spec) { log.clear(); co.tags.insert("update_spec:reset".into()); } else { co.tags.insert("update_spec:kept".into()); }
                    v.update_spec(&spec);
                    format!("ok {}", digest(&v))
                }
                ["restart", l, ty] => {
                    // through the persistence model type and back, then what Node::new_full does
                    let spec = VelocityControlSpec { limit_msat: l.parse().unwrap(), interval_type: itype(ty).unwrap() };
                    let stored: vls_persist::model::VelocityControl = v.clone().into();
                    let json = serde_json::to_string(&stored).unwrap();
                    let back: vls_persist::model::VelocityControl = serde_json::from_str(&json).unwrap();
                    let mut w: VelocityControl = back.into();
                    if !w.spec_matches(&spec) { log.clear(); co.tags.insert("restart:reset".into()); } else { co.tags.insert("restart:kept".into()); }
                    w.update_spec(&spec);
                    v = w;
                    format!("ok {}", digest(&v))
                }
                ["clear"] => { v.clear(); log.clear(); format!("ok {}", digest(&v)) }
                _ => "bad-op".to_string(),
            };
            co.out.push(line);
        }
        co.nontrivial = seen_true && seen_false;
        co
    }
}

// ---------------------------------------------------------------------------------------------

/// A clock that can run a hook inside one `now()` call: the hook models another request running to
/// completion while the caller is preempted right after it read the clock (it holds no lock there, so
/// this is a legal interleaving of two overlapping requests).  The time returned is the one read BEFORE
/// the hook ran.
pub struct HookClock {
    pub inner: Arc<ManualClock>,
    pub hook: std::sync::Mutex<Option<Box<dyn FnOnce() + Send>>>,
}
impl lightning_signer::SendSync for HookClock {}
impl lightning_signer::util::clock::Clock for HookClock {
    fn now(&self) -> Duration {
        use lightning_signer::util::clock::Clock;
        let t = self.inner.now();
        let h = self.hook.lock().unwrap().take();
        if let Some(h) = h { h(); }
        t
    }
}

/// a real signed BOLT-11 invoice issued at `now` for the payment hash sha256(h)
fn mk_invoice(h: [u8; 32], now: u64, amt: u64, key_byte: u8) -> lightning_signer::invoice::Invoice {
    use lightning_signer::bitcoin::hashes::{sha256::Hash as Sha256Hash, Hash};
    use lightning_signer::bitcoin::secp256k1::{Secp256k1, SecretKey};
    use lightning_signer::lightning::types::payment::PaymentSecret;
    use lightning_signer::lightning_invoice::{Currency, InvoiceBuilder};
    let key = SecretKey::from_slice(&[key_byte; 32]).unwrap();
    lightning_signer::invoice::Invoice::Bolt11(
        InvoiceBuilder::new(Currency::BitcoinTestnet)
            .description("verif".into())
            .payment_hash(Sha256Hash::hash(&h))
            .payment_secret(PaymentSecret(h))
            .duration_since_epoch(Duration::from_secs(now))
            .min_final_cltv_expiry_delta(144)
            .amount_milli_satoshis(amt)
            .build_signed(|hash| Secp256k1::new().sign_ecdsa_recoverable(hash, &key))
            .unwrap(),
    )
}

pub struct C12Node;

/// the validator factory a node gets: the simple one, or (`onchain`) vlsd's default wrapper around it
fn factory(policy: lightning_signer::policy::simple_validator::SimplePolicy, onchain: bool) -> Arc<dyn lightning_signer::policy::validator::ValidatorFactory> {
    let simple = SimpleValidatorFactory::new_with_policy(policy);
    if onchain {
        Arc::new(lightning_signer::policy::onchain_validator::OnchainValidatorFactory::new_with_simple_factory(simple))
    } else {
        Arc::new(simple)
    }
}

static ONCHAIN_FACTORY: std::sync::atomic::AtomicBool = std::sync::atomic::AtomicBool::new(false);

fn services(persister: Arc<dyn Persist>, clock: Arc<dyn lightning_signer::util::clock::Clock>, limit: u64, ty: VelocityControlIntervalType) -> NodeServices {
    let mut policy = make_default_simple_policy(Network::Testnet);
    policy.global_velocity_control = VelocityControlSpec { limit_msat: limit, interval_type: ty };
    policy.max_invoices = 10_000;
    NodeServices {
        validator_factory: factory(policy, ONCHAIN_FACTORY.load(std::sync::atomic::Ordering::Relaxed)),
        starting_time_factory: make_genesis_starting_time_factory(Network::Testnet),
        persister,
        clock,
        trusted_oracle_pubkeys: vec![],
    }
}

impl Group for C12Node {
    fn property(&self) -> &'static str { "C12" }
    fn model(&self) -> Option<&'static str> { Some("velocity_node") }
    fn rule(&self) -> &'static str {
        "node: real Node with ManualClock and a global velocity policy (Hourly/Daily), approvals through add_keysend / add_invoice \
         directly and through the signer's approver (handle_proposed_keysend / handle_proposed_invoice, allowlisted and \
         other payees) with distinct payment hashes and retries, restarts through KVVPersister<MemoryKVVStore> + Node::restore_node between any two \
         approvals; non-trivial = at least one approval, one refusal and one restart"
    }
    fn budget(&self, tier: Tier) -> usize { if tier == Tier::Quick { 800 } else { 6000 } }
    fn corpus(&self) -> Vec<Vec<String>> {
        vec!["n_new 1000 h|n_keysend 1000000 900|n_keysend 1000000 900|n_restart 1000 h|n_keysend 1000000 900|n_keysend 1000001 100|n_keysend 1000001 1"
            .split('|').map(|s| s.to_string()).collect(),
            // overlapping invoice approvals across a bucket boundary (defect F25: the clock was read before the lock)
            "n_new 1000000 h|n_race 1600000000 600000 1600000400 600000".split('|').map(|s| s.to_string()).collect(),
            "n_new 1000000 h|n_keysend 1600000000 100|n_race 1600000100 600000 1600000100 600000".split('|').map(|s| s.to_string()).collect(),
            "n_new 1000000 h|n_race 1600000000 600000 1600000400 600000 k".split('|').map(|s| s.to_string()).collect(),
            // the interval type is changed across a restart: the daily control must remember for 23 hours
            "n_new 1000 h|n_keysend 1600000000 900 d|n_restart 1000 d|n_keysend 1600000100 600 d|n_keysend 1600047000 600 d|n_restart 1000 d|n_keysend 1600080000 600 d|n_keysend 1600090000 600 d"
                .split('|').map(|s| s.to_string()).collect()]
    }
    fn model_line(&self, op: &str) -> Option<String> {
        let t: Vec<&str> = op.split_whitespace().collect();
        if t.first() == Some(&"n_race") { return None; }
        Some(match t.as_slice() {
            ["n_new", l, ty] | ["n_new", l, ty, _] => format!("spec {} {}", l, ty),
            ["n_keysend", now, amt] | ["n_keysend", now, amt, _] => format!("insert {} {}", now, amt),
            ["n_invoice", now, amt] | ["n_invoice", now, amt, _] => format!("insert {} {}", now, amt),
            ["n_dup", now] => format!("dup {}", now),
            ["n_restart", l, ty] => format!("restart {} {}", l, ty),
            _ => op.to_string(),
        })
    }
    fn gen_case(&self, rng: &mut Rng, tier: Tier) -> Vec<String> {
        let limit = *rng.pick(&[1000u64, 5000, 1_000_000, 1]);
        let ty = *rng.pick(&["h", "d"]);
        let (bi, n) = if ty == "d" { (3600u64, 24u64) } else { (300, 12) };
        let mut ops = vec![format!("n_new {} {}{}", limit, ty, if rng.chance(1, 3) { " o" } else { "" })];
        let len = rng.range(3, if tier == Tier::Quick { 10 } else { 25 }) as usize;
        let mut ta = gen_times_amounts(rng, bi, n, limit, len, tier);
        // Node timestamps start from a realistic epoch
        for x in ta.iter_mut() { x.0 = x.0.saturating_add(1_600_000_000).min(4_000_000_000); }
        ta.sort();
        let tmax = ta.iter().map(|x| x.0).max().unwrap_or(1_600_000_000);
        for (t, a) in ta {
            if rng.chance(1, 4) {
                let l = if rng.chance(1, 8) { limit + 1 } else { limit };
                ops.push(format!("n_restart {} {}", l, ty));
            }
            // route: d = the node entry point directly, a = through the signer's approver
            // (vls-protocol-signer `Approve::handle_proposed_*`), al = approver, invoice payee on the allowlist
            if a > 0 && a < (1u64 << 60) && rng.chance(1, 2) {
                ops.push(format!("n_invoice {} {} {}", t, a, rng.pick(&["d", "a", "al"])));
            } else {
                ops.push(format!("n_keysend {} {} {}", t, a, rng.pick(&["d", "a"])));
            }
            // the same payment asked again (retry), possibly several times
            let mut k = 0;
            while k < 3 && rng.chance(1, 4) {
                ops.push(format!("n_dup {}", t));
                k += 1;
            }
        }
        // sometimes the operator changes the configured interval type (and possibly the limit) across a restart; the
        // history goes on in the geometry of the NEW spec: approvals spread over its tracked interval, amounts around
        // half the limit, so that a control that forgets too early approves too much inside one window
        if rng.chance(1, 5) {
            let nty = if ty == "d" { "h" } else { "d" };
            let (nbi, nn) = if nty == "d" { (3600u64, 24u64) } else { (300, 12) };
            let nlimit = if rng.chance(1, 3) { limit + 1 } else { limit };
            ops.push(format!("n_restart {} {}", nlimit, nty));
            let mut t = tmax + rng.below(nbi);
            for k in 0..rng.range(2, 5) {
                if k > 0 {
                    t += match rng.below(5) {
                        0 => nbi * (nn / 2) + rng.below(nbi),          // half the tracked interval later
                        1 => nbi * rng.range(nn / 2, nn - 1),          // more than half, less than the window
                        2 => nbi * (nn - 1) - rng.below(nbi.min(60)),  // just inside the window
                        3 => nbi * (nn - 1) + 1 + rng.below(nbi),      // just outside
                        _ => rng.below(nbi * nn),
                    };
                }
                let a = *rng.pick(&[nlimit / 2 + 1, nlimit - nlimit / 3, nlimit / 2, nlimit]);
                if a > 0 { ops.push(format!("n_keysend {} {} d", t, a)); }
                if rng.chance(1, 4) { ops.push(format!("n_restart {} {}", nlimit, nty)); }
            }
            return ops;
        }
        // sometimes two overlapping invoice approvals at the end (the second one possibly in a later bucket)
        if rng.chance(1, 5) {
            // never before the last request of the case (the clock does not go backwards)
            let t = tmax + *rng.pick(&[0u64, 1, bi, 2 * bi * n]);
            let a = *rng.pick(&[limit / 2 + 1, limit, limit / 3 + 1, 1]);
            let b = *rng.pick(&[limit / 2 + 1, limit, 1]);
            let dt = *rng.pick(&[0u64, 1, bi - 1, bi, bi + 1, 3 * bi, (n - 1) * bi]);
            if a > 0 && b > 0 { ops.push(format!("n_race {} {} {} {}{}", t, a, t + dt, b, if rng.chance(1, 2) { " k" } else { "" })); }
        }
        ops
    }
    fn exec_case(&self, ops: &[String]) -> CaseOut {
        let mut co = CaseOut::default();
        let persister: Arc<dyn Persist> = Arc::new(KVVPersister(MemoryKVVStore::new([7u8; 16]), JsonFormat));
        let mclock = Arc::new(ManualClock::new(Duration::from_secs(1_600_000_000)));
        let clock = mclock.clone();
        let hclock = Arc::new(HookClock { inner: mclock.clone(), hook: std::sync::Mutex::new(None) });
        let seed = [9u8; 32];
        let config = NodeConfig {
            network: Network::Testnet,
            key_derivation_style: KeyDerivationStyle::Native,
            use_checkpoints: true,
            allow_deep_reorgs: true,
        };
        let mut node: Option<Arc<Node>> = None;
        let mut log: Vec<(u64, u64)> = Vec::new();
        let mut hash_ctr: u32 = 0;
        let (mut st, mut sf, mut sr) = (false, false, false);
        // last approval request: (is_invoice, amount, counted as approved by the harness, route)
        let mut last_req: Option<(bool, u64, bool, String)> = None;
        // the policy spec in force according to the ops (the oracle never trusts the node's own limit)
        let mut cur_spec: Option<(u64, String)> = None;
        for (i, op) in ops.iter().enumerate() {
            let t0: Vec<&str> = op.split_whitespace().collect();
            // a retry re-issues the previous request unchanged (same payment hash, same amount)
            let (dup, rewritten);
            let t: Vec<&str> = if let ["n_dup", now] = t0.as_slice() {
                match last_req.clone() {
                    Some((is_inv, amt, _, ref route)) => {
                        dup = true;
                        rewritten = format!("{} {} {} {}", if is_inv { "n_invoice" } else { "n_keysend" }, now, amt, route);
                        rewritten.split_whitespace().collect()
                    }
                    None => { co.out.push("bad-op".into()); continue; }
                }
            } else { dup = false; t0.clone() };
            let line = match t.as_slice() {
                ["n_new", l, ty, ..] => {
                    // 4th token `o`: the node runs with OnchainValidatorFactory (vlsd's default) around the policy
                    ONCHAIN_FACTORY.store(t.get(3) == Some(&"o"), std::sync::atomic::Ordering::Relaxed);
                    co.tags.insert(format!("factory:{}", if t.get(3) == Some(&"o") { "onchain" } else { "simple" }));
                    last_req = None;
                    cur_spec = Some((l.parse().unwrap(), ty.to_string()));
                    let n = Arc::new(Node::new(config, &seed, vec![], services(persister.clone(), hclock.clone(), l.parse().unwrap(), itype(ty).unwrap())));
                    persister.new_node(&n.get_id(), &config, &*n.get_state()).unwrap();
                    persister.new_tracker(&n.get_id(), &n.get_tracker()).unwrap();
                    {
                        use lightning_signer::bitcoin::secp256k1::{PublicKey, Secp256k1, SecretKey};
                        let payee = PublicKey::from_secret_key(&Secp256k1::new(), &SecretKey::from_slice(&[42; 32]).unwrap());
                        n.add_allowlist(&[format!("payee:{}", payee)]).unwrap();
                    }
                    let d = digest(&n.get_state().velocity_control);
                    node = Some(n);
                    log.clear();
                    format!("ok {}", d)
                }
                [kind @ ("n_keysend" | "n_invoice"), now, amt, ..] => {
                    let route = t.get(3).copied().unwrap_or("d").to_string();
                    let n = node.as_ref().expect("n_new first");
                    let now: u64 = now.parse().unwrap();
                    let amt: u64 = amt.parse().unwrap();
                    clock.set(Duration::from_secs(now));
                    if !dup { hash_ctr += 1; }
                    let mut h = [0u8; 32];
                    h[..4].copy_from_slice(&hash_ctr.to_be_bytes());
                    let is_invoice = *kind == "n_invoice";
                    let already_counted = dup && last_req.as_ref().map(|r| r.2).unwrap_or(false);
                    let r = std::panic::catch_unwind(std::panic::AssertUnwindSafe(|| {
                        if is_invoice {
                            // a real signed BOLT-11 invoice issued "now" for a fresh payment hash
                            use lightning_signer::bitcoin::hashes::{sha256::Hash as Sha256Hash, Hash};
                            use lightning_signer::bitcoin::secp256k1::{Secp256k1, SecretKey};
                            use lightning_signer::invoice::Invoice;
                            use lightning_signer::lightning::types::payment::PaymentSecret;
                            use lightning_signer::lightning_invoice::{Currency, InvoiceBuilder};
                            // the payee of key 42 is on the node's allowlist (see n_new), the payee of key 43 is not
                            let key = SecretKey::from_slice(&[if route == "al" { 42 } else { 43 }; 32]).unwrap();
                            let inv = InvoiceBuilder::new(Currency::BitcoinTestnet)
                                .description("verif".into())
                                .payment_hash(Sha256Hash::hash(&h))
                                .payment_secret(PaymentSecret(h))
                                .duration_since_epoch(Duration::from_secs(now))
                                .min_final_cltv_expiry_delta(144)
                                .amount_milli_satoshis(amt)
                                .build_signed(|hash| Secp256k1::new().sign_ecdsa_recoverable(hash, &key))
                                .unwrap();
                            if route == "d" {
                                n.add_invoice(Invoice::Bolt11(inv))
                            } else {
                                use vls_protocol_signer::approver::{Approve, PositiveApprover};
                                PositiveApprover().handle_proposed_invoice(n, Invoice::Bolt11(inv))
                            }
                        } else if route == "d" {
                            n.add_keysend(make_test_pubkey(1), PaymentHash(h), amt)
                        } else {
                            use vls_protocol_signer::approver::{Approve, PositiveApprover};
                            PositiveApprover().handle_proposed_keysend(n, make_test_pubkey(1), PaymentHash(h), amt)
                        }
                    }));
                    match r {
                        Err(_) => { co.tags.insert("keysend:panic".into()); "panic".to_string() }
                        Ok(Err(e)) => { co.tags.insert("keysend:err".into()); format!("err {:?}", e.code()) }
                        Ok(Ok(ok)) => {
                            let d = digest(&n.get_state().velocity_control);
                            let (limit, wlen) = match &cur_spec {
                                Some((l, ty)) if ty == "d" => (*l, 23 * 3600u64),
                                Some((l, _)) => (*l, 11 * 300u64),
                                None => (u64::MAX, 0),
                            };
                            last_req = Some((is_invoice, amt, ok || already_counted, route.clone()));
                            co.tags.insert(format!("route:{}:{}", route, ok));
                            if dup { co.tags.insert(format!("dup:{}", ok)); }
                            if ok && already_counted {
                                // a repeat of an approved payment: answered true, nothing new approved
                            } else if ok {
                                st = true;
                                co.tags.insert("keysend:true".into());
                                log.push((now, amt));
                                if limit != u64::MAX {
                                    if let Some((t0, sum)) = window_violation(&log, wlen, limit) {
                                        co.violations.push(Violation {
                                            kind: "window-exceeds-limit".into(),
                                            desc: format!("node approved {} msat within window [{}, {}] with limit {}", sum, t0, t0 + wlen, limit),
                                            at: i,
                                        });
                                    }
                                }
                            } else {
                                sf = true;
                                co.tags.insert("keysend:false".into());
                            }
                            format!("{} {}", ok, d)
                        }
                    }
                }
                ["n_race", ta, aa, tb, ab, ..] => {
                    // 6th token `k`: request A is a keysend approval (its pre-lock clock read is the one that stamps
                    // the payment), otherwise an invoice approval
                    let a_keysend = t.get(5) == Some(&"k");
                    // two overlapping invoice approvals: A reads the clock at ta and is preempted before it takes
                    // the node state; B (at tb >= ta) runs completely; A continues.  Whatever the order the signer
                    // serialises them in, the approved amounts must respect the window bound (and nothing panics).
                    assert!(i + 1 == ops.len(), "n_race must be the last op of a case");
                    // With the clock read before the lock (defect F25) a debug build aborts the whole process
                    // (panic while the state lock is held, then a second panic in the `defer!` guard).  So the case
                    // is first run in a child process; an abort there is the violation, with this case as replay.
                    if std::env::var("VERIF_RACE_CHILD").is_err() {
                        let tmp = std::env::temp_dir().join(format!("vls-verif-race-{}-{}.txt", std::process::id(), i));
                        let mut txt = String::from("case 0\n");
                        for o in ops { txt.push_str(o); txt.push('\n'); }
                        std::fs::write(&tmp, txt).unwrap();
                        let st = std::process::Command::new(std::env::current_exe().unwrap())
                            .args(["C12", "--group", "1", "--replay", tmp.to_str().unwrap(), "--out", "/dev/null"])
                            .env("VERIF_RACE_CHILD", "1")
                            .stdout(std::process::Stdio::null())
                            .stderr(std::process::Stdio::null())
                            .status();
                        let _ = std::fs::remove_file(&tmp);
                        let aborted = match st { Ok(s) => !s.success(), Err(_) => false };
                        if aborted {
                            co.tags.insert("race:aborted".into());
                            co.violations.push(Violation {
                                kind: "overlapping-approvals-abort".into(),
                                desc: format!("{}: the signer process aborts when two approvals overlap (a request that read the clock before taking the node state lock is overtaken by a later one: time goes backwards inside VelocityControl::insert)", op),
                                at: i,
                            });
                            co.out.push("race aborted".into());
                            continue;
                        }
                    }
                    let n = node.as_ref().expect("n_new first").clone();
                    let (ta, aa, tb, ab): (u64, u64, u64, u64) = (ta.parse().unwrap(), aa.parse().unwrap(), tb.parse().unwrap(), ab.parse().unwrap());
                    hash_ctr += 2;
                    let (mut ha, mut hb) = ([0u8; 32], [0u8; 32]);
                    ha[..4].copy_from_slice(&hash_ctr.to_be_bytes());
                    hb[..4].copy_from_slice(&(hash_ctr - 1).to_be_bytes());
                    clock.set(Duration::from_secs(ta));
                    let res_b: Arc<std::sync::Mutex<Option<bool>>> = Arc::new(std::sync::Mutex::new(None));
                    {
                        let (n2, c2, rb) = (n.clone(), mclock.clone(), res_b.clone());
                        let inv_b = mk_invoice(hb, tb, ab, 43);
                        *hclock.hook.lock().unwrap() = Some(Box::new(move || {
                            c2.set(Duration::from_secs(tb));
                            *rb.lock().unwrap() = n2.add_invoice(inv_b).ok();
                        }));
                    }
                    let ra = if a_keysend { n.add_keysend(make_test_pubkey(1), PaymentHash(ha), aa).ok() } else { n.add_invoice(mk_invoice(ha, ta, aa, 43)).ok() };
                    let rb = *res_b.lock().unwrap();
                    let (limit, wlen) = match &cur_spec {
                        Some((l, ty)) if ty == "d" => (*l, 23 * 3600u64),
                        Some((l, _)) => (*l, 11 * 300u64),
                        None => (u64::MAX, 0),
                    };
                    if rb == Some(true) { log.push((tb, ab)); }
                    if ra == Some(true) { log.push((tb.max(ta), aa)); }
                    log.sort();
                    co.tags.insert(format!("race:{:?}:{:?}", ra, rb));
                    if limit != u64::MAX {
                        if let Some((t0, sum)) = window_violation(&log, wlen, limit) {
                            co.violations.push(Violation {
                                kind: "window-exceeds-limit:overlapping-approvals".into(),
                                desc: format!("two overlapping invoice approvals (clock read at {} before the lock, the other request at {}): {} msat approved within window [{}, {}] with limit {}", ta, tb, sum, t0, t0 + wlen, limit),
                                at: i,
                            });
                        }
                    }
                    format!("race {:?} {:?}", ra, rb)
                }
                ["n_restart", l, ty] => {
                    sr = true;
                    let old = node.take().expect("n_new first");
                    drop(old);
                    let (node_id, entry) = persister.get_nodes().unwrap().into_iter().next().unwrap();
                    let n = Node::restore_node(&node_id, entry, &seed, services(persister.clone(), hclock.clone(), l.parse().unwrap(), itype(ty).unwrap())).unwrap();
                    let d = digest(&n.get_state().velocity_control);
                    let new_spec = Some((l.parse::<u64>().unwrap(), ty.to_string()));
                    if new_spec != cur_spec { log.clear(); co.tags.insert("restart:spec-changed".into()); } else { co.tags.insert("restart:kept".into()); }
                    cur_spec = new_spec;
                    node = Some(n);
                    format!("ok {}", d)
                }
                _ => "bad-op".to_string(),
            };
            co.out.push(line);
        }
        co.nontrivial = st && sf && sr;
        co
    }
}

// ---------------------------------------------------------------------------------------------

/// Fee velocity: approvals through the real on-chain check (`check_and_sign_onchain_tx`) of a
/// wallet-to-wallet transaction whose fee is the requested amount.
pub struct C12Fee;

fn fee_services(persister: Arc<dyn Persist>, clock: Arc<ManualClock>, limit: u64, ty: VelocityControlIntervalType) -> NodeServices {
    let mut policy = make_default_simple_policy(Network::Testnet);
    policy.fee_velocity_control = VelocityControlSpec { limit_msat: limit, interval_type: ty };
    NodeServices {
        validator_factory: factory(policy, ONCHAIN_FACTORY.load(std::sync::atomic::Ordering::Relaxed)),
        starting_time_factory: make_genesis_starting_time_factory(Network::Testnet),
        persister,
        clock,
        trusted_oracle_pubkeys: vec![],
    }
}

impl Group for C12Fee {
    fn property(&self) -> &'static str { "C12" }
    fn model(&self) -> Option<&'static str> { Some("velocity_node") }
    fn rule(&self) -> &'static str {
        "fee: real Node with ManualClock and a fee velocity policy (Hourly/Daily, limits of a few thousand sat); each request is a          wallet-to-wallet transaction with the requested fee passed through Node::check_and_sign_onchain_tx; restarts through the real          persister between any two requests; non-trivial = at least one approval, one refusal and one restart"
    }
    fn budget(&self, tier: Tier) -> usize { if tier == Tier::Quick { 200 } else { 1500 } }
    fn corpus(&self) -> Vec<Vec<String>> {
        vec!["f_new 5000000 d|f_onchain 1600000000 3000|f_restart 5000000 d|f_onchain 1600000100 3000|f_onchain 1600000200 1000"
            .split('|').map(|s| s.to_string()).collect(),
            // the change address is on the allowlist and the change is smaller than the fee
            "f_new 5000000 d|f_allow|f_onchain 1600000000 2600 s|f_onchain 1600000100 2600 s|f_restart 5000000 d|f_onchain 1600000200 2300 as"
            .split('|').map(|s| s.to_string()).collect(),
            // the fee limit's interval type is changed across a restart
            "f_new 5000000 h|f_onchain 1600000000 3000|f_restart 5000000 d|f_onchain 1600000100 3000|f_onchain 1600047000 3000|f_restart 5000000 d|f_onchain 1600050000 1500"
            .split('|').map(|s| s.to_string()).collect()]
    }
    fn model_line(&self, op: &str) -> Option<String> {
        let t: Vec<&str> = op.split_whitespace().collect();
        if t.first() == Some(&"f_allow") { return None; }
        Some(match t.as_slice() {
            ["f_new", l, ty] | ["f_new", l, ty, _] => format!("spec {} {}", l, ty),
            ["f_onchain", now, fee] | ["f_onchain", now, fee, _] => format!("insert {} {}", now, fee.parse::<u64>().unwrap_or(0) * 1000),
            ["f_restart", l, ty] => format!("restart {} {}", l, ty),
            _ => op.to_string(),
        })
    }
    fn gen_case(&self, rng: &mut Rng, tier: Tier) -> Vec<String> {
        let limit = *rng.pick(&[5_000_000u64, 3_000_000, 10_000_000]);
        let ty = *rng.pick(&["h", "d"]);
        let (bi, n) = if ty == "d" { (3600u64, 24u64) } else { (300, 12) };
        let mut ops = vec![format!("f_new {} {}{}", limit, ty, if rng.chance(1, 3) { " o" } else { "" })];
        let len = rng.range(3, if tier == Tier::Quick { 8 } else { 16 }) as usize;
        let mut t = 1_600_000_000u64 + rng.below(10_000);
        // the operator may have put one of the wallet's own addresses on the allowlist (the change address of the
        // requests below): an output that is both to the wallet and allowlisted still counts once
        if rng.chance(1, 3) { ops.push("f_allow".to_string()); }
        let (mut limit, mut ty, mut bi, mut n) = (limit, ty, bi, n);
        for _ in 0..len {
            t += match rng.below(5) { 0 => 0, 1 => bi - (t % bi), 2 => rng.below(bi), 3 => bi * rng.range(1, n), _ => rng.below(bi * n) };
            if rng.chance(1, 3) {
                // mostly the unchanged spec; sometimes another limit or the other interval type
                match rng.below(8) {
                    0 => { limit += 1000; }
                    1 => { ty = if ty == "d" { "h" } else { "d" }; let g = if ty == "d" { (3600u64, 24u64) } else { (300, 12) }; bi = g.0; n = g.1; }
                    _ => {}
                }
                ops.push(format!("f_restart {} {}", limit, ty));
            }
            let fee = match rng.below(5) { 0 => limit / 1000, 1 => limit / 2000 + 1, 2 => limit / 2000, 3 => 300, _ => rng.range(200, limit / 1000) };
            // flags: a = through the approver, s = a small change output (less than the fee)
            let flags = format!("{}{}", if rng.chance(1, 3) { "a" } else { "" }, if rng.chance(1, 3) { "s" } else { "" });
            ops.push(format!("f_onchain {} {}{}{}", t, fee, if flags.is_empty() { "" } else { " " }, flags));
        }
        ops
    }
    fn exec_case(&self, ops: &[String]) -> CaseOut {
        use lightning_signer::bitcoin::secp256k1::Secp256k1;
        use lightning_signer::node::SpendType;
        let mut co = CaseOut::default();
        let persister: Arc<dyn Persist> = Arc::new(KVVPersister(MemoryKVVStore::new([7u8; 16]), JsonFormat));
        let clock = Arc::new(ManualClock::new(Duration::from_secs(1_600_000_000)));
        let seed = [9u8; 32];
        let config = NodeConfig { network: Network::Testnet, key_derivation_style: KeyDerivationStyle::Native, use_checkpoints: true, allow_deep_reorgs: true };
        let mut node: Option<Arc<Node>> = None;
        let mut log: Vec<(u64, u64)> = Vec::new();
        let (mut st, mut sf, mut sr) = (false, false, false);
        // the fee velocity spec in force according to the ops (the oracle does not trust the node's own control)
        let mut cur_spec: Option<(u64, String)> = None;
        for (i, op) in ops.iter().enumerate() {
            let t: Vec<&str> = op.split_whitespace().collect();
            let line = match t.as_slice() {
                ["f_allow"] => {
                    let n = node.as_ref().expect("f_new first").clone();
                    let addr = make_test_funding_wallet_addr(&n, 1, SpendType::P2wpkh).to_string();
                    n.add_allowlist(&[addr]).unwrap();
                    co.tags.insert("allowlisted-change".into());
                    "ok".to_string()
                }
                ["f_new", l, ty, ..] => {
                    cur_spec = Some((l.parse().unwrap(), ty.to_string()));
                    ONCHAIN_FACTORY.store(t.get(3) == Some(&"o"), std::sync::atomic::Ordering::Relaxed);
                    co.tags.insert(format!("factory:{}", if t.get(3) == Some(&"o") { "onchain" } else { "simple" }));
                    let n = Arc::new(Node::new(config, &seed, vec![], fee_services(persister.clone(), clock.clone(), l.parse().unwrap(), itype(ty).unwrap())));
                    persister.new_node(&n.get_id(), &config, &*n.get_state()).unwrap();
                    persister.new_tracker(&n.get_id(), &n.get_tracker()).unwrap();
                    n.add_allowlist(&[]).unwrap();
                    let d = digest(&n.get_state().fee_velocity_control);
                    node = Some(n);
                    log.clear();
                    format!("ok {}", d)
                }
                ["f_onchain", now, fee, ..] => {
                    // 4th token `a`: the way vlsd does it — the signer's approver (`handle_proposed_onchain` of an
                    // approving approver) first, then the unchecked signing step
                    let via_approver = t.get(3).map(|f| f.contains('a')).unwrap_or(false);
                    let small_change = t.get(3).map(|f| f.contains('s')).unwrap_or(false);
                    let n = node.as_ref().expect("f_new first").clone();
                    let now: u64 = now.parse().unwrap();
                    let fee: u64 = fee.parse().unwrap();
                    clock.set(Duration::from_secs(now));
                    let node_ctx = TestNodeContext { node: n.clone(), secp_ctx: Secp256k1::signing_only() };
                    let mut tx_ctx = TestFundingTxContext::new();
                    let change = if small_change { 600 } else { 1_000_000 };
                    tx_ctx.add_wallet_input(&node_ctx, SpendType::P2wpkh, 1, change + fee);
                    tx_ctx.add_wallet_output(&node_ctx, SpendType::P2wpkh, 1, change);
                    if small_change { co.tags.insert("small-change".into()); }
                    let tx = tx_ctx.to_tx();
                    let r = std::panic::catch_unwind(std::panic::AssertUnwindSafe(|| {
                        if via_approver {
                            use vls_protocol_signer::approver::{Approve, PositiveApprover};
                            let flags: Vec<bool> = tx.input.iter().map(|_| true).collect();
                            match PositiveApprover().handle_proposed_onchain(&n, &tx, &flags, &tx_ctx.prev_outs, &tx_ctx.iuckeys, &tx_ctx.opaths) {
                                Ok(true) => n.unchecked_sign_onchain_tx(&tx, &tx_ctx.ipaths, &tx_ctx.prev_outs, tx_ctx.iuckeys.clone()),
                                Ok(false) => Err(lightning_signer::util::status::Status::failed_precondition("not approved")),
                                Err(e) => Err(e),
                            }
                        } else {
                            tx_ctx.sign(&node_ctx, &tx)
                        }
                    }));
                    co.tags.insert(format!("onchain-route:{}", if via_approver { "approver" } else { "direct" }));
                    let d = digest(&n.get_state().fee_velocity_control);
                    let (limit, wlen) = match &cur_spec {
                        Some((l, ty)) if ty == "d" => (*l, 23 * 3600u64),
                        Some((l, _)) => (*l, 11 * 300u64),
                        None => (u64::MAX, 0),
                    };
                    match r {
                        Err(_) => { co.tags.insert("onchain:panic".into()); "panic".to_string() }
                        Ok(Err(e)) => {
                            sf = true;
                            co.tags.insert(format!("onchain:err:{:?}", e.code()));
                            format!("false {}", d)
                        }
                        Ok(Ok(_)) => {
                            st = true;
                            co.tags.insert("onchain:ok".into());
                            log.push((now, fee * 1000));
                            if limit != u64::MAX {
                                if let Some((t0, sum)) = window_violation(&log, wlen, limit) {
                                    co.violations.push(Violation {
                                        kind: "fee-window-exceeds-limit".into(),
                                        desc: format!("node approved {} msat of fees within window [{}, {}] with fee velocity limit {}", sum, t0, t0 + wlen, limit),
                                        at: i,
                                    });
                                }
                            }
                            format!("true {}", d)
                        }
                    }
                }
                ["f_restart", l, ty] => {
                    sr = true;
                    drop(node.take());
                    let (node_id, entry) = persister.get_nodes().unwrap().into_iter().next().unwrap();
                    let n = Node::restore_node(&node_id, entry, &seed, fee_services(persister.clone(), clock.clone(), l.parse().unwrap(), itype(ty).unwrap())).unwrap();
                    let d = digest(&n.get_state().fee_velocity_control);
                    let new_spec = Some((l.parse::<u64>().unwrap(), ty.to_string()));
                    // a changed spec replaces the control (update_spec): its history starts again
                    if new_spec != cur_spec { log.clear(); co.tags.insert("restart:spec-changed".into()); } else { co.tags.insert("restart:kept".into()); }
                    cur_spec = new_spec;
                    node = Some(n);
                    format!("ok {}", d)
                }
                _ => "bad-op".to_string(),
            };
            co.out.push(line);
        }
        co.nontrivial = st && sf && sr;
        co
    }
}


// ---------------------------------------------------------------------------------------------

/// The approver-level velocity control: `VelocityApprover<NegativeApprover>` of vls-protocol-signer
/// (automatic approval while its own `VelocityControl` accepts, otherwise ask the delegate, which always
/// declines here) in front of a node whose own policy velocity is unlimited.
pub struct C12Approver;

impl Group for C12Approver {
    fn property(&self) -> &'static str { "C12" }
    fn model(&self) -> Option<&'static str> { Some("velocity") }
    fn rule(&self) -> &'static str {
        "approver: VelocityApprover<NegativeApprover> (its own VelocityControl from an Hourly/Daily spec) in front of a real \
         Node with an unlimited policy velocity; proposals through handle_proposed_invoice (real signed BOLT-11 invoices) \
         and handle_proposed_keysend with fresh payment hashes at non-decreasing times; the control is compared with the \
         model after every proposal and the approved amounts with the sliding-window oracle; non-trivial = at least one \
         approval and one refusal"
    }
    fn budget(&self, tier: Tier) -> usize { if tier == Tier::Quick { 200 } else { 4000 } }
    fn corpus(&self) -> Vec<Vec<String>> {
        vec!["va_new 1000 h|va_keysend 1600000000 900|va_invoice 1600000000 101|va_invoice 1600000000 100|va_keysend 1600003300 900|va_keysend 1600003600 900|va_invoice 1600003601 1"
            .split('|').map(|s| s.to_string()).collect()]
    }
    fn model_line(&self, op: &str) -> Option<String> {
        let t: Vec<&str> = op.split_whitespace().collect();
        Some(match t.as_slice() {
            ["va_new", l, ty] => format!("spec {} {}", l, ty),
            ["va_keysend", now, amt] | ["va_invoice", now, amt] => format!("insert {} {}", now, amt),
            _ => op.to_string(),
        })
    }
    fn gen_case(&self, rng: &mut Rng, tier: Tier) -> Vec<String> {
        let limit = *rng.pick(&[1000u64, 5000, 1_000_000, 1]);
        let ty = *rng.pick(&["h", "d"]);
        let (bi, n) = if ty == "d" { (3600u64, 24u64) } else { (300, 12) };
        let mut ops = vec![format!("va_new {} {}", limit, ty)];
        let len = rng.range(3, if tier == Tier::Quick { 10 } else { 25 }) as usize;
        let mut ta = gen_times_amounts(rng, bi, n, limit, len, tier);
        for x in ta.iter_mut() { x.0 = x.0.saturating_add(1_600_000_000).min(4_000_000_000); }
        ta.sort();
        for (t, a) in ta {
            if a > 0 && a < (1u64 << 60) && rng.chance(1, 2) {
                ops.push(format!("va_invoice {} {}", t, a));
            } else {
                ops.push(format!("va_keysend {} {}", t, a));
            }
        }
        ops
    }
    fn exec_case(&self, ops: &[String]) -> CaseOut {
        use vls_protocol_signer::approver::{Approve, NegativeApprover, VelocityApprover};
        let mut co = CaseOut::default();
        let persister: Arc<dyn Persist> = Arc::new(KVVPersister(MemoryKVVStore::new([7u8; 16]), JsonFormat));
        let clock = Arc::new(ManualClock::new(Duration::from_secs(1_600_000_000)));
        let config = NodeConfig {
            network: Network::Testnet,
            key_derivation_style: KeyDerivationStyle::Native,
            use_checkpoints: true,
            allow_deep_reorgs: true,
        };
        let mut st: Option<(Arc<Node>, VelocityApprover<NegativeApprover>, u64, u64)> = None;
        let mut log: Vec<(u64, u64)> = Vec::new();
        let mut hash_ctr: u32 = 0;
        let (mut seen_t, mut seen_f) = (false, false);
        for (i, op) in ops.iter().enumerate() {
            let t: Vec<&str> = op.split_whitespace().collect();
            let line = match t.as_slice() {
                ["va_new", l, ty] => {
                    let limit: u64 = l.parse().unwrap();
                    let n = Arc::new(Node::new(config, &[9u8; 32], vec![], services(persister.clone(), clock.clone(), 0, VelocityControlIntervalType::Unlimited)));
                    let control = VelocityControl::new(VelocityControlSpec { limit_msat: limit, interval_type: itype(ty).unwrap() });
                    let d = digest(&control);
                    let a = VelocityApprover::new(clock.clone(), control, NegativeApprover());
                    st = Some((n, a, limit, if *ty == "d" { 23 * 3600 } else { 11 * 300 }));
                    log.clear();
                    format!("ok {}", d)
                }
                [kind @ ("va_keysend" | "va_invoice"), now, amt] => {
                    let (n, a, limit, wlen) = st.as_ref().expect("va_new first");
                    let now: u64 = now.parse().unwrap();
                    let amt: u64 = amt.parse().unwrap();
                    clock.set(Duration::from_secs(now));
                    hash_ctr += 1;
                    let mut h = [0u8; 32];
                    h[..4].copy_from_slice(&hash_ctr.to_be_bytes());
                    let r = std::panic::catch_unwind(std::panic::AssertUnwindSafe(|| {
                        if *kind == "va_invoice" {
                            use lightning_signer::bitcoin::hashes::{sha256::Hash as Sha256Hash, Hash};
                            use lightning_signer::bitcoin::secp256k1::{Secp256k1, SecretKey};
                            use lightning_signer::invoice::Invoice;
                            use lightning_signer::lightning::types::payment::PaymentSecret;
                            use lightning_signer::lightning_invoice::{Currency, InvoiceBuilder};
                            let key = SecretKey::from_slice(&[43; 32]).unwrap();
                            let inv = InvoiceBuilder::new(Currency::BitcoinTestnet)
                                .description("verif".into())
                                .payment_hash(Sha256Hash::hash(&h))
                                .payment_secret(PaymentSecret(h))
                                .duration_since_epoch(Duration::from_secs(now))
                                .min_final_cltv_expiry_delta(144)
                                .amount_milli_satoshis(amt)
                                .build_signed(|hash| Secp256k1::new().sign_ecdsa_recoverable(hash, &key))
                                .unwrap();
                            a.handle_proposed_invoice(n, Invoice::Bolt11(inv))
                        } else {
                            a.handle_proposed_keysend(n, make_test_pubkey(1), PaymentHash(h), amt)
                        }
                    }));
                    match r {
                        Err(_) => { co.tags.insert("va:panic".into()); "panic".to_string() }
                        Ok(Err(e)) => { co.tags.insert("va:err".into()); format!("err {:?}", e.code()) }
                        Ok(Ok(ok)) => {
                            if ok {
                                seen_t = true;
                                co.tags.insert("va:true".into());
                                log.push((now, amt));
                                if let Some((t0, sum)) = window_violation(&log, *wlen, *limit) {
                                    co.violations.push(Violation {
                                        kind: "approver-window-exceeds-limit".into(),
                                        desc: format!("the velocity approver approved {} msat within window [{}, {}] with limit {}", sum, t0, t0 + wlen, limit),
                                        at: i,
                                    });
                                }
                                // what the approver approved the node must have recorded
                                if !n.get_state().invoices.contains_key(&PaymentHash(if *kind == "va_invoice" {
                                    use lightning_signer::bitcoin::hashes::{sha256::Hash as Sha256Hash, Hash};
                                    Sha256Hash::hash(&h).to_byte_array()
                                } else { h })) {
                                    co.violations.push(Violation { kind: "approved-but-not-recorded".into(), desc: format!("proposal {} answered true but the node has no record of it", op), at: i });
                                }
                            } else {
                                seen_f = true;
                                co.tags.insert("va:false".into());
                            }
                            format!("{} {}", ok, digest(&a.control()))
                        }
                    }
                }
                _ => "bad-op".to_string(),
            };
            co.out.push(line);
        }
        co.nontrivial = seen_t && seen_f;
        co
    }
}

#[path = "c12_ask.rs"]
mod ask;

pub fn groups() -> Vec<Box<dyn Group>> {
    vec![Box::new(C12Unit), Box::new(C12Node), Box::new(C12Fee), Box::new(C12Approver), Box::new(ask::C12ApproverAsk)]
}
