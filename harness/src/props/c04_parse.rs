//! C04, byte level of the raw entry point's decoder: the real `decode_commitment_tx` (→ `handle_output` → the `parse_*`
//! functions of tx.rs → `expect_*` of script.rs → rust-bitcoin's instruction iterator and `read_scriptint`) on a
//! one-output transaction whose P2WSH script_pubkey commits to a generated witness script, against the Lean model
//! `wsparse` (`Drv/Bolt3Parse.lean`: `instrs`, the templates **regenerated from the source** in the regenerated attempt
//! order, `handleParsed`).  The scripts are the canonical templates with boundary parameters (delays and expiries around
//! every script-number width, 0, 16/17, 2016/2017, 2^31, negative; keys that are no curve points; hash pushes of 19/21
//! bytes; the `1 CSV DROP` suffix with and without anchors) and byte-level mutations of them (bit flips, inserted /
//! deleted / appended bytes, truncation, a direct push re-encoded as OP_PUSHDATA1/2/4, a script number padded to a
//! non-minimal encoding or given a sign bit).  `PublicKey::from_slice` is not modelled: every data push of the script
//! that parses as a key is listed in the op with the canonical encoding of the key (computed here with secp256k1).
use super::*;
use std::collections::BTreeSet;
use lightning_signer::channel::ChannelBase;

pub struct C04Parse;

fn base_setup(ctype: char) -> SetupD {
    SetupD { ctype, outbound: true, holder_delay: 6, cp_delay: 7, txid: 2, vout: 0, chan_value: 3_000_000, mode: 0, point: 10, via: false, pre: None }
}
fn dummy_content() -> ContentD { ContentD { commit_num: 1, feerate: 0, to_cs: 0, to_bc: 0, htlcs: vec![] } }

fn hexs(b: &[u8]) -> String { if b.is_empty() { "-".into() } else { hex::encode(b) } }

/// the data pushes of a script that are keys, with the canonical encoding of the key
fn key_pairs(script: &[u8]) -> Vec<String> {
    let s = ScriptBuf::from(script.to_vec());
    let mut v: Vec<String> = Vec::new();
    for ins in s.instructions() {
        match ins {
            Ok(lightning_signer::bitcoin::blockdata::script::Instruction::PushBytes(d)) => {
                if let Ok(pk) = PublicKey::from_slice(d.as_bytes()) {
                    let e = format!("{}={}", hexs(d.as_bytes()), hex::encode(pk.serialize()));
                    if !d.as_bytes().is_empty() && !v.contains(&e) { v.push(e); }
                }
            }
            Ok(_) => {}
            Err(_) => break,
        }
    }
    v
}

/// positions (offset, length) of the direct pushes of a script (stops at the first irregularity)
fn direct_pushes(b: &[u8]) -> Vec<(usize, usize)> {
    let mut v = Vec::new();
    let mut i = 0;
    while i < b.len() {
        let c = b[i] as usize;
        if (1..=0x4b).contains(&c) {
            if i + 1 + c > b.len() { break; }
            v.push((i, c));
            i += 1 + c;
        } else if c == 0x4c || c == 0x4d || c == 0x4e { break; } else { i += 1; }
    }
    v
}

fn gen_template(rng: &mut Rng) -> Tpl {
    let key = |rng: &mut Rng, usual: i64| -> i64 { match rng.below(8) { 0 => 0, 1 => rng.range(1, 7) as i64, _ => usual } };
    let num = |rng: &mut Rng| -> i64 {
        match rng.below(16) {
            0 => 0, 1 => 1, 2 => 16, 3 => 17, 4 => *rng.pick(&[127i64, 128, 255, 256, 32767, 32768, 65535, 65536]),
            5 => *rng.pick(&[2015i64, 2016, 2017, 2018]), 6 => *rng.pick(&[8388607i64, 8388608, 16777215, 16777216]),
            7 => *rng.pick(&[(1i64 << 31) - 1, 1 << 31, (1 << 31) + 1, (1 << 32) - 1, 1 << 32, 1 << 39]),
            8 => -(rng.range(1, 70000) as i64), 9 => *rng.pick(&[-1i64, -16, -17, -127, -128, -32768, -(1 << 31) + 1, -(1 << 31)]),
            10 => 144, 11 => 500_000_000, _ => rng.range(1, 900_000) as i64,
        }
    };
    let hashlen = |rng: &mut Rng| -> i64 { match rng.below(10) { 0 => 19, 1 => 21, 2 => 0, 3 => 32, 4 => 1, _ => 20 } };
    match rng.below(12) {
        0 | 1 | 2 => Tpl::Local { rev: key(rng, 1), delay: num(rng), delayed: key(rng, 2) },
        3 | 4 | 5 => Tpl::Recv { csv: rng.chance(1, 2), rev: key(rng, 1), k1: key(rng, 4), hash: rng.range(1, 50) as i64, hashlen: hashlen(rng), k2: key(rng, 3), cltv: num(rng) },
        6 | 7 => Tpl::Off { csv: rng.chance(1, 2), rev: key(rng, 1), k1: key(rng, 4), k2: key(rng, 3), hash: rng.range(1, 50) as i64, hashlen: hashlen(rng) },
        8 | 9 => Tpl::Anchor(*rng.pick(&[6i64, 7, 6, 7, 1, 0, 5])),
        10 => Tpl::RemoteA(*rng.pick(&[5i64, 5, 0, 7])),
        _ => Tpl::Unknown(rng.below(9) as i64),
    }
}

fn mutate_bytes(rng: &mut Rng, b: &mut Vec<u8>) -> &'static str {
    const INTERESTING: [u8; 20] = [0x00, 0x01, 0x02, 0x4b, 0x4c, 0x4d, 0x4e, 0x4f, 0x50, 0x51, 0x60, 0x61, 0x63, 0x64, 0x67, 0x68, 0x75, 0x80, 0x81, 0xff];
    match rng.below(10) {
        0 if !b.is_empty() => { let i = rng.below(b.len() as u64) as usize; b[i] ^= 1u8 << rng.below(8); "flip" }
        1 => { let i = rng.below(b.len() as u64 + 1) as usize; b.insert(i, *rng.pick(&INTERESTING)); "insert" }
        2 if !b.is_empty() => { let i = rng.below(b.len() as u64) as usize; b.remove(i); "delete" }
        3 if !b.is_empty() => { let n = rng.below(b.len() as u64) as usize; b.truncate(n); "truncate" }
        4 => { b.push(*rng.pick(&INTERESTING)); "append" }
        5 | 6 => {
            // a direct push re-encoded with an explicit length prefix (accepted by a non-minimal-enforcing iterator)
            let ps = direct_pushes(b);
            if ps.is_empty() { return "none"; }
            let (at, len) = *rng.pick(&ps);
            let mut pre: Vec<u8> = match rng.below(3) { 0 => vec![0x4c, len as u8], 1 => vec![0x4d, len as u8, 0], _ => vec![0x4e, len as u8, 0, 0, 0] };
            if rng.chance(1, 6) { let k = pre.len() - 1; pre[k] = pre[k].wrapping_add(1); } // … or with a wrong length
            b.splice(at..at + 1, pre);
            "pushdata"
        }
        7 => {
            // a script number padded to a non-minimal encoding, or with the sign bit set
            let ps: Vec<(usize, usize)> = direct_pushes(b).into_iter().filter(|p| p.1 <= 5).collect();
            if ps.is_empty() { return "none"; }
            let (at, len) = *rng.pick(&ps);
            if rng.chance(1, 2) { b[at] += 1; b.insert(at + 1 + len, *rng.pick(&[0x00u8, 0x80])); "numpad" }
            else { b[at + len] |= 0x80; "numneg" }
        }
        8 => {
            // a pushed script number replaced by a single opcode (a non-PushNum opcode must not read as a number)
            let ps: Vec<(usize, usize)> = direct_pushes(b).into_iter().filter(|p| p.1 <= 5).collect();
            if ps.is_empty() { return "none"; }
            let (at, len) = *rng.pick(&ps);
            b.splice(at..at + 1 + len, [*rng.pick(&[0x61u8, 0x76, 0x50, 0x4f, 0x51, 0x60, 0x00, 0xb1, 0x6a])]);
            "numop"
        }
        _ => "none",
    }
}

fn decode_real(live: &Live, value: u64, script: &[u8]) -> String {
    let spk = ScriptBuf::from(script.to_vec()).to_p2wsh();
    let tx = Transaction { version: Version::TWO, lock_time: LockTime::ZERO, input: vec![], output: vec![TxOut { value: Amount::from_sat(value), script_pubkey: spk }] };
    let ws = vec![script.to_vec()];
    let r = catch_unwind(AssertUnwindSafe(|| live.node.with_channel(&live.id, |chan| {
        let v = chan.validator();
        Ok(v.decode_commitment_tx(&chan.keys, &chan.setup, true, &tx, &ws))
    })));
    match r {
        Err(_) => "panic".into(),
        Ok(Err(_)) => "no-channel".into(),
        Ok(Ok(Err(_))) => "reject".into(),
        Ok(Ok(Ok(info))) => {
            if info.to_broadcaster_delayed_pubkey.is_some() { format!("toBc {} {}", info.to_broadcaster_value_sat, info.to_self_delay) }
            else if info.to_countersigner_pubkey.is_some() || info.to_countersigner_address.is_some() { format!("toCs {}", info.to_countersigner_value_sat) }
            else if info.received_htlcs.len() == 1 { format!("received {} {}", hexs(&info.received_htlcs[0].payment_hash_hash), info.received_htlcs[0].cltv_expiry) }
            else if info.offered_htlcs.len() == 1 { format!("offered {}", hexs(&info.offered_htlcs[0].payment_hash_hash)) }
            else if info.to_broadcaster_anchor_count == 1 { "anchorB".into() }
            else if info.to_countersigner_anchor_count == 1 { "anchorC".into() }
            else { "accept-nothing".into() }
        }
    }
}

impl Group for C04Parse {
    fn property(&self) -> &'static str { "C04" }
    fn model(&self) -> Option<&'static str> { Some("wsparse") }
    fn rule(&self) -> &'static str {
        "byte level of the raw entry point's decoder: real decode_commitment_tx (handle_output, parse_*, expect_*, rust-bitcoin's instruction \
         iterator and read_scriptint) on a one-output transaction whose P2WSH output commits to a generated witness script, against the Lean \
         model wsparse (instruction iterator, the script templates and their attempt order REGENERATED from tx.rs on every run, the \
         handle_*_output checks with regenerated constants); scripts = the five commitment templates + an unknown script with boundary \
         parameters (script numbers around every width, 0/16/17, 2016/2017, 2^31, negative; non-point keys; hash pushes of 0/1/19/21/32 bytes; \
         CSV suffix with/without anchors; anchor values 329/330/331) and byte mutations (bit flip, insert, delete, truncate, append, direct push \
         re-encoded as OP_PUSHDATA1/2/4 incl. wrong lengths, non-minimal / sign-bit script numbers); a case is non-trivial when it contains \
         accepted scripts of at least two kinds and a refused one"
    }
    fn budget(&self, tier: Tier) -> usize { if tier == Tier::Quick { 250 } else { 3000 } }
    fn gen_case(&self, rng: &mut Rng, _tier: Tier) -> Vec<String> {
        let live = match fresh_base(&base_setup('s'), &dummy_content()) { Ok(l) => l, Err(_) => return vec!["keys - -".into()] };
        let kt = key_tab(&live.holder, &make_test_pubkey(10));
        let mut ops = vec![format!("keys {} {}", hex::encode(kt.bytes(6)), hex::encode(kt.bytes(7)))];
        for _ in 0..40 {
            let t = gen_template(rng);
            let mut b = script_bytes(&t, &kt);
            if rng.chance(1, 2) { mutate_bytes(rng, &mut b); if rng.chance(1, 5) { mutate_bytes(rng, &mut b); } }
            let anchors = rng.chance(1, 2);
            let value = match (&t, rng.below(6)) { (Tpl::Anchor(_), 0) => 329, (Tpl::Anchor(_), 1) => 331, (Tpl::Anchor(_), _) => 330, (_, 0) => 0, (_, 1) => 330, (_, 2) => 1u64 << 40, _ => rng.range(1, 3_000_000) };
            let mut op = format!("parse {} {} {}", if anchors { 1 } else { 0 }, value, hexs(&b));
            for p in key_pairs(&b) { op.push(' '); op.push_str(&p); }
            ops.push(op);
        }
        ops
    }
    fn exec_case(&self, ops: &[String]) -> CaseOut {
        let mut co = CaseOut::default();
        let mut lives: [Option<Live>; 2] = [None, None];
        let mut kinds: BTreeSet<String> = BTreeSet::new();
        let mut rejected = false;
        for op in ops {
            let t: Vec<&str> = op.split_whitespace().collect();
            let line: String = match t[0] {
                "keys" => "ok".into(),
                "parse" if t.len() >= 4 => {
                    let a = if t[1] == "1" { 1 } else { 0 };
                    if lives[a].is_none() { lives[a] = fresh_base(&base_setup(if a == 1 { 'z' } else { 's' }), &dummy_content()).ok(); }
                    let value: u64 = t[2].parse().unwrap_or(0);
                    let script = if t[3] == "-" { vec![] } else { hex::decode(t[3]).unwrap_or_default() };
                    match &lives[a] {
                        None => "no-channel".into(),
                        Some(l) => {
                            let r = decode_real(l, value, &script);
                            let k = r.split(' ').next().unwrap_or("").to_string();
                            co.tags.insert(format!("wsparse:{}:anchors{}", k, a));
                            if k == "reject" { rejected = true; } else { kinds.insert(k); }
                            r
                        }
                    }
                }
                _ => "bad-op".into(),
            };
            co.out.push(line);
        }
        co.nontrivial = kinds.len() >= 2 && rejected;
        co
    }
}
