//! C13, protocol-handler level: the `AddBlock` / `RemoveBlock` / `BlockChunk` arms of the real
//! `RootHandler` (vls-protocol-signer), on a persisting node with one ready channel.
//!
//! The handler answers `OrphanBlock` with a `SignerError` reply and keeps running; every other tracker
//! error ends in `panic!("add_block")` / `.expect("remove_block")` / `.expect("block_chunk")`, i.e. the
//! signer process aborts.  A process abort is not a refusal; this group records which requests abort
//! (tags `handler-abort:<request>:<flavour>`, observations) and checks what C13 still promises:
//!  * a correct request is answered with the matching `...Reply` and the tracker entry is persisted;
//!  * an orphan block is refused with `SignerError`, changes nothing, and later correct requests
//!    (compact and streamed) succeed;
//!  * after an abort, the restarted signer (`Node::restore_node` from the persister) is in the state
//!    it had before the aborted request, and a later correct request succeeds.
//! Implementation-only group (no Lean model): the tracker itself is covered by group 0.
use super::{mine, mk_block};
use crate::common::*;
use crate::props::c14::world::{coinbase, panic_msg};
use crate::props::c15::{did, fid, W15};
use lightning_signer::bitcoin::consensus::serialize;
use lightning_signer::bitcoin::hash_types::FilterHeader;
use lightning_signer::bitcoin::hashes::Hash;
use lightning_signer::bitcoin::{Block, BlockHash};
use lightning_signer::txoo::proof::{ProofType, TxoProof};
use std::panic::{catch_unwind, AssertUnwindSafe};
use std::sync::Arc;
use vls_protocol::serde_bolt::{LargeOctets, Octets};
use vls_protocol::msgs::{self, DebugTxoProof, Message};
use vls_protocol_signer::approver::PositiveApprover;
use vls_protocol_signer::handler::{Handler, InitHandler, RootHandler};

pub struct C13Handler;

fn root(w: &W15) -> RootHandler {
    let mut init = InitHandler::new(0, w.node.clone(), Arc::new(PositiveApprover()), 4);
    let m = msgs::HsmdInit {
        key_version: vls_protocol::model::Bip32KeyVersion { pubkey_version: 0, privkey_version: 0 },
        chain_params: BlockHash::all_zeros(),
        encryption_key: None,
        dev_privkey: None,
        dev_bip32_seed: None,
        dev_channel_secrets: None,
        dev_channel_secrets_shaseed: None,
        hsm_wire_min_version: 2,
        hsm_wire_max_version: 4,
    };
    let (done, _) = init.handle(Message::HsmdInit(m)).expect("hsmd init");
    assert!(done);
    init.into()
}

fn state(w: &W15) -> String {
    let t = w.node.get_tracker();
    let tip = t.tip().0.block_hash().to_string();
    let r = format!(" tip={} n={}", &tip[..12], t.headers().len());
    drop(t);
    w.digest() + &r
}

/// persisted tracker height and tip (what a restart would see)
fn persisted_tip(w: &W15) -> String {
    let (_, entry) = w.persister.get_nodes().unwrap().into_iter().next().unwrap();
    let _ = entry;
    let (tracker, _) = w
        .persister
        .get_tracker(w.node.get_id(), Arc::new(lightning_signer::policy::simple_validator::SimpleValidatorFactory::new()))
        .unwrap();
    format!("{}@{}", &tracker.tip().0.block_hash().to_string()[..12], tracker.height())
}

fn reply_name(r: &Box<dyn msgs::SerBolt>) -> String {
    match msgs::from_vec(r.as_vec()) {
        Ok(Message::AddBlockReply(_)) => "AddBlockReply".into(),
        Ok(Message::RemoveBlockReply(_)) => "RemoveBlockReply".into(),
        Ok(Message::BlockChunkReply(_)) => "BlockChunkReply".into(),
        Ok(Message::SignerError(e)) => format!("SignerError({})", e.code),
        Ok(_) => "other".into(),
        Err(_) => "undecodable".into(),
    }
}

impl Group for C13Handler {
    fn property(&self) -> &'static str { "C13" }
    fn model(&self) -> Option<&'static str> { None }
    fn rule(&self) -> &'static str {
        "handler level: real RootHandler on a persisting node with one ready channel; AddBlock / BlockChunk+AddBlock / \
         RemoveBlock (compact and streamed) requests that are correct, orphan, carry a proof for the wrong height, lack PoW, \
         announce another block than the streamed one, omit the proof, name a wrong previous header; after a process abort \
         the node is restored from the persister; non-trivial = at least one correct request answered and one request that \
         is refused or aborts"
    }
    fn budget(&self, tier: Tier) -> usize { if tier == Tier::Quick { 40 } else { 600 } }
    fn corpus(&self) -> Vec<Vec<String>> {
        let c = |s: &str| -> Vec<String> { s.split('|').map(|x| x.to_string()).collect() };
        vec![
            c("hadd c valid f|hadd s orphan -|hadd s valid -|hremove s valid|hremove c valid|hadd c valid d"),
            c("hadd c valid -|hadd c badproof -|hadd c valid -|hremove c badproof|hremove c valid"),
            c("hadd s mismatch -|hadd c valid -|hadd c nopow -|hadd s valid -|hremove c wrongprev|hremove s valid"),
            c("hadd c noproof -|hadd c valid f|hremove c noproof|hremove c valid"),
        ]
    }
    fn gen_case(&self, rng: &mut Rng, _tier: Tier) -> Vec<String> {
        let mut ops = Vec::new();
        let mut depth = 0i64;
        for _ in 0..rng.range(3, 9) {
            let del = if rng.chance(1, 3) { "s" } else { "c" };
            if depth > 0 && rng.chance(1, 3) {
                let fl = *rng.pick(&["valid", "valid", "valid", "badproof", "wrongprev", "noproof"]);
                ops.push(format!("hremove {} {}", del, fl));
                if fl == "valid" { depth -= 1; }
            } else {
                let fl = *rng.pick(&["valid", "valid", "valid", "valid", "orphan", "badproof", "nopow", "mismatch", "noproof"]);
                let tx = *rng.pick(&["-", "-", "f", "d", "x"]);
                ops.push(format!("hadd {} {} {}", del, fl, tx));
                if fl == "valid" { depth += 1; }
            }
        }
        ops
    }
    fn exec_case(&self, ops: &[String]) -> CaseOut {
        let mut co = CaseOut::default();
        let mut w = W15::new();
        w.new_channel(1).unwrap();
        w.setup(1).unwrap();
        let mut h = root(&w);
        let mut used: Vec<u64> = Vec::new(); // pool txs on the chain (per connected block)
        let (mut answered, mut refused) = (0, 0);
        let mut after_refusal = false;
        let mut stream_left_open = false; // a streamed request was refused by the handler before reaching the tracker
        for (i, op) in ops.iter().enumerate() {
            let t: Vec<&str> = op.split_whitespace().collect();
            let streamed = t[1] == "s";
            let flavour = t[2];
            let before = state(&w);
            let before_persisted = persisted_tip(&w);
            // ---- build the request from the current tracker state -------------------------------
            let (tip, height, prev0) = {
                let tr = w.node.get_tracker();
                (tr.tip().clone(), tr.height(), tr.headers().get(0).cloned())
            };
            let mut msgs_to_send: Vec<Message> = Vec::new();
            let mut new_block: Option<(Block, Vec<u64>)> = None;
            let correct = flavour == "valid" || (flavour == "mismatch" && !streamed);
            if t[0] == "hadd" {
                w.cb += 1;
                let flat: Vec<u64> = w.chain.iter().flatten().cloned().collect();
                let ids: Vec<u64> = match t.get(3).copied().unwrap_or("-") {
                    "f" if !flat.contains(&fid(1)) && !flat.contains(&did(1)) => vec![fid(1)],
                    "d" if !flat.contains(&fid(1)) && !flat.contains(&did(1)) => vec![did(1)],
                    _ => vec![],
                };
                let mut txs = vec![coinbase(500 + w.cb)];
                txs.extend(ids.iter().map(|x| w.txs[x].clone()));
                let prev = if flavour == "orphan" { prev0.as_ref().map(|p| p.0.block_hash()).unwrap_or(BlockHash::all_zeros()) } else { tip.0.block_hash() };
                let bits = tip.0.bits.to_consensus();
                let block = if flavour == "nopow" { mk_block(prev, txs, 0x1d00ffff, 3000 + w.cb, false) } else { mk_block(prev, txs, bits, 3000 + w.cb, true) };
                let att_h = if flavour == "badproof" { height + 2 } else { height + 1 };
                let mut proof = TxoProof::prove_unchecked(&block, &tip.1, att_h);
                if streamed {
                    proof.proof = ProofType::ExternalBlock();
                    let streamed_block = if flavour == "mismatch" {
                        mk_block(tip.0.block_hash(), vec![coinbase(900 + w.cb)], bits, 4000 + w.cb, true)
                    } else {
                        block.clone()
                    };
                    msgs_to_send.push(Message::BlockChunk(msgs::BlockChunk { hash: streamed_block.block_hash(), offset: 0, content: Octets(serialize(&streamed_block)) }));
                }
                let unspent_proof = if flavour == "noproof" { None } else { Some(DebugTxoProof(proof)) };
                msgs_to_send.push(Message::AddBlock(msgs::AddBlock { header: Octets(serialize(&block.header)), unspent_proof }));
                new_block = Some((block, ids));
            } else {
                let block = match w.blocks.last() {
                    Some(b) => b.clone(),
                    None => {
                        co.out.push("skip".into());
                        continue;
                    }
                };
                let good_prev = prev0.clone().expect("window");
                let prev = if flavour == "wrongprev" { lightning_signer::chain::tracker::Headers(good_prev.0, FilterHeader::from_byte_array([0xdd; 32])) } else { good_prev.clone() };
                let att_h = if flavour == "badproof" { height + 1 } else { height };
                let mut proof = TxoProof::prove_unchecked(&block, &good_prev.1, att_h);
                if streamed {
                    proof.proof = ProofType::ExternalBlock();
                    msgs_to_send.push(Message::BlockChunk(msgs::BlockChunk { hash: block.block_hash(), offset: 0, content: Octets(serialize(&block)) }));
                }
                let unspent_proof = if flavour == "noproof" { None } else { Some(LargeOctets(serialize(&proof))) };
                msgs_to_send.push(Message::RemoveBlock(msgs::RemoveBlock { unspent_proof, prev_block_header: prev.0, prev_filter_header: prev.1 }));
            }
            // ---- send ------------------------------------------------------------------------------
            let res = catch_unwind(AssertUnwindSafe(|| {
                let mut last = String::new();
                for m in msgs_to_send {
                    match h.handle(m) {
                        Ok(r) => last = reply_name(&r),
                        Err(e) => return format!("Err({})", match e { vls_protocol_signer::handler::Error::Protocol(_) => "protocol", vls_protocol_signer::handler::Error::Signing(_) => "signing", vls_protocol_signer::handler::Error::Temporary(_) => "temporary" }),
                    }
                }
                last
            }));
            let req = format!("{}:{}:{}", &t[0][1..], if streamed { "streamed" } else { "compact" }, flavour);
            let line = match res {
                Ok(r) => {
                    let expect = if t[0] == "hadd" { "AddBlockReply" } else { "RemoveBlockReply" };
                    if r == expect {
                        answered += 1;
                        co.tags.insert(format!("handler-ok:{}", req));
                        if after_refusal { co.tags.insert("handler-ok:after-refusal-or-abort".into()); }
                        if !correct {
                            co.violations.push(Violation { kind: "handler-accepted-incorrect-request".into(), desc: format!("{} was answered with {}", op, r), at: i });
                        }
                        if t[0] == "hadd" {
                            let (b, ids) = new_block.take().unwrap();
                            w.blocks.push(b);
                            w.chain.push(ids.clone());
                            used.extend(ids);
                        } else {
                            w.blocks.pop();
                            w.chain.pop();
                        }
                        // the acknowledged change is in the persister
                        let tr = w.node.get_tracker();
                        let now = format!("{}@{}", &tr.tip().0.block_hash().to_string()[..12], tr.height());
                        drop(tr);
                        if persisted_tip(&w) != now {
                            co.violations.push(Violation { kind: "handler-ack-not-persisted".into(), desc: format!("{} acknowledged but the persisted tracker is at {}", op, persisted_tip(&w)), at: i });
                        }
                    } else {
                        // a refusal by reply (SignerError for an orphan block, Err status for a missing proof)
                        refused += 1;
                        after_refusal = true;
                        if streamed && flavour == "noproof" { stream_left_open = true; }
                        co.tags.insert(format!("handler-refused:{}:{}", req, r));
                        if correct {
                            co.violations.push(Violation { kind: "handler-correct-request-failed".into(), desc: format!("{} (correct) was answered with {}", op, r), at: i });
                        }
                        let after = state(&w);
                        if after != before {
                            co.violations.push(Violation { kind: "rejected-request-changed-state".into(), desc: format!("{} refused with {} but the node changed: [{}] -> [{}]", op, r, before, after), at: i });
                        }
                    }
                    r
                }
                Err(e) => {
                    // the signer process aborts; restart from the persister
                    refused += 1;
                    after_refusal = true;
                    let msg = panic_msg(e);
                    co.tags.insert(format!("handler-abort:{}", req));
                    if stream_left_open && (msg.contains("is_external != decode_state") || msg.contains("already decoding")) {
                        // finding F19: the handler refused `AddBlock`/`RemoveBlock` without a decodable proof *after* the
                        // block chunks; the tracker keeps its decode state and the next request hits an assert
                        co.violations.push(Violation { kind: "handler-refusal-leaves-stream-open".into(),
                            desc: format!("a streamed request without a decodable proof was refused by reply earlier; {} now aborts the signer: {}", op, msg), at: i });
                    } else if correct {
                        co.violations.push(Violation { kind: "handler-correct-request-failed".into(), desc: format!("{} (correct) aborted the signer: {}", op, msg), at: i });
                    }
                    stream_left_open = false;
                    w.restart();
                    h = root(&w);
                    let after = state(&w);
                    if persisted_tip(&w) != before_persisted {
                        co.violations.push(Violation { kind: "abort-changed-persisted-state".into(), desc: format!("{} aborted ({}) and the persisted tracker moved {} -> {}", op, msg, before_persisted, persisted_tip(&w)), at: i });
                    }
                    // compare the restored node with the node before the request (monitor decode states and the
                    // forget flag aside, everything observable is in the digest)
                    if after != before {
                        co.violations.push(Violation { kind: "abort-then-restart-differs".into(), desc: format!("{} aborted ({}); after restart [{}] but before the request [{}]", op, msg, after, before), at: i });
                    }
                    format!("abort+restart {}", msg.chars().take(60).collect::<String>())
                }
            };
            co.out.push(line);
        }
        let _ = used;
        co.nontrivial = answered > 0 && refused > 0;
        co
    }
}
