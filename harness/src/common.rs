//! Shared plumbing: PRNG, model subprocess, case runner, diffing, shrinking, report.
use serde::Serialize;
use std::collections::{BTreeMap, BTreeSet};
use std::io::Write;
use std::panic::{catch_unwind, AssertUnwindSafe};
use std::process::{Command, Stdio};

/// One PRNG for every random choice (xorshift64*, seeded through splitmix64).
#[derive(Clone)]
pub struct Rng(u64);
impl Rng {
    pub fn new(seed: u64) -> Self {
        let mut z = seed.wrapping_add(0x9E3779B97F4A7C15);
        z = (z ^ (z >> 30)).wrapping_mul(0xBF58476D1CE4E5B9);
        z = (z ^ (z >> 27)).wrapping_mul(0x94D049BB133111EB);
        z ^= z >> 31;
        Rng(if z == 0 { 0x1234_5678_9abc_def1 } else { z })
    }
    pub fn next(&mut self) -> u64 {
        let mut x = self.0;
        x ^= x >> 12;
        x ^= x << 25;
        x ^= x >> 27;
        self.0 = x;
        x.wrapping_mul(0x2545F4914F6CDD1D)
    }
    /// uniform in 0..n (n > 0)
    pub fn below(&mut self, n: u64) -> u64 {
        self.next() % n
    }
    pub fn range(&mut self, lo: u64, hi_incl: u64) -> u64 {
        lo + self.below(hi_incl - lo + 1)
    }
    pub fn chance(&mut self, num: u64, den: u64) -> bool {
        self.below(den) < num
    }
    pub fn pick<'a, T>(&mut self, xs: &'a [T]) -> &'a T {
        &xs[self.below(xs.len() as u64) as usize]
    }
    pub fn bytes(&mut self, n: usize) -> Vec<u8> {
        (0..n).map(|_| self.next() as u8).collect()
    }
    pub fn fork(&mut self) -> Rng {
        Rng::new(self.next())
    }
}

#[derive(Clone, Copy, PartialEq, Eq, Debug)]
pub enum Tier {
    Quick,
    Thorough,
}

#[derive(Clone, Debug, Serialize)]
pub struct Violation {
    /// short machine-readable kind, matched against known_findings.json
    pub kind: String,
    pub desc: String,
    /// index of the op at which the monitor fired
    pub at: usize,
}

#[derive(Default, Clone, Debug)]
pub struct CaseOut {
    /// one output line per op (same canonical format as the model prints)
    pub out: Vec<String>,
    /// violations of the property seen by the implementation-side monitor
    pub violations: Vec<Violation>,
    /// coverage tags hit in this case (result classes, branches, interesting predicates)
    pub tags: BTreeSet<String>,
    /// true if the case is non-trivial by the group's stated rule
    pub nontrivial: bool,
}

pub trait Group {
    /// property ids served (for the report)
    fn property(&self) -> &'static str;
    /// model name understood by `vlsmodel` (None = implementation-only monitor run)
    fn model(&self) -> Option<&'static str>;
    /// rule text for the evidence file
    fn rule(&self) -> &'static str;
    /// generate one case (op lines); may consult the implementation while generating
    fn gen_case(&self, rng: &mut Rng, tier: Tier) -> Vec<String>;
    /// execute op lines on the real implementation
    fn exec_case(&self, ops: &[String]) -> CaseOut;
    /// number of generated cases per tier
    fn budget(&self, tier: Tier) -> usize;
    /// fixed cases that always run first (targeted witnesses, past failures)
    fn corpus(&self) -> Vec<Vec<String>> {
        vec![]
    }
    /// Lines that are not fed to the model (implementation-only ops); default: none
    fn model_line(&self, op: &str) -> Option<String> {
        Some(op.to_string())
    }
}

#[derive(Serialize, Clone, Debug)]
pub struct Disagreement {
    pub case: usize,
    pub at: usize,
    pub ops: Vec<String>,
    pub impl_out: Vec<String>,
    pub model_out: Vec<String>,
}

#[derive(Serialize, Clone, Debug)]
pub struct FoundViolation {
    pub case: usize,
    pub kind: String,
    pub desc: String,
    pub ops: Vec<String>,
    pub impl_out: Vec<String>,
}

#[derive(Serialize, Default, Debug)]
pub struct Report {
    pub property: String,
    pub model: Option<String>,
    pub tier: String,
    pub seed: u64,
    pub cases: usize,
    pub corpus_cases: usize,
    pub ops: usize,
    pub distinct_cases: usize,
    pub distinct_nontrivial: usize,
    pub rule: String,
    pub tags: BTreeMap<String, usize>,
    pub op_kinds: BTreeMap<String, usize>,
    pub case_len_hist: BTreeMap<usize, usize>,
    pub samples: Vec<serde_json::Value>,
    pub disagreements: Vec<Disagreement>,
    pub violations: Vec<FoundViolation>,
    pub impl_panics: usize,
    pub extra: BTreeMap<String, serde_json::Value>,
}

pub fn run_model(model_bin: &str, name: &str, lines: &[String]) -> Result<Vec<String>, String> {
    let mut child = Command::new(model_bin)
        .arg(name)
        .stdin(Stdio::piped())
        .stdout(Stdio::piped())
        .stderr(Stdio::inherit())
        .spawn()
        .map_err(|e| format!("spawn {}: {}", model_bin, e))?;
    let mut stdin = child.stdin.take().unwrap();
    let input = lines.join("\n") + "\n";
    let writer = std::thread::spawn(move || {
        let _ = stdin.write_all(input.as_bytes());
    });
    let out = child.wait_with_output().map_err(|e| e.to_string())?;
    let _ = writer.join();
    if !out.status.success() {
        return Err(format!("model exited with {:?}", out.status));
    }
    Ok(String::from_utf8_lossy(&out.stdout).lines().map(|s| s.to_string()).collect())
}

pub fn exec_guarded(g: &dyn Group, ops: &[String]) -> (CaseOut, bool) {
    match catch_unwind(AssertUnwindSafe(|| g.exec_case(ops))) {
        Ok(o) => (o, false),
        Err(e) => {
            let msg = if let Some(s) = e.downcast_ref::<String>() {
                s.clone()
            } else if let Some(s) = e.downcast_ref::<&str>() {
                s.to_string()
            } else {
                "?".into()
            };
            let mut o = CaseOut::default();
            o.out = vec![format!("harness-panic {}", msg.replace('\n', " "))];
            o.tags.insert("harness-panic".into());
            (o, true)
        }
    }
}

fn model_outputs_for(
    g: &dyn Group,
    model_bin: &str,
    cases: &[Vec<String>],
) -> Result<Vec<Vec<String>>, String> {
    let name = match g.model() {
        Some(n) => n,
        None => return Ok(cases.iter().map(|_| vec![]).collect()),
    };
    let mut lines = Vec::new();
    let mut counts = Vec::new();
    for (i, c) in cases.iter().enumerate() {
        lines.push(format!("case {}", i));
        let mut n = 0;
        for op in c {
            if let Some(l) = g.model_line(op) {
                lines.push(l);
                n += 1;
            }
        }
        counts.push(n);
    }
    let out = run_model(model_bin, name, &lines)?;
    let mut res = Vec::new();
    let mut it = out.into_iter();
    for (i, n) in counts.iter().enumerate() {
        match it.next() {
            Some(l) if l == format!("case {}", i) => {}
            other => return Err(format!("model stream out of sync at case {}: {:?}", i, other)),
        }
        let mut v = Vec::new();
        for _ in 0..*n {
            v.push(it.next().unwrap_or_else(|| "<missing>".into()));
        }
        res.push(v);
    }
    Ok(res)
}

/// first index at which implementation and model disagree (over the ops fed to the model)
fn first_mismatch(g: &dyn Group, ops: &[String], impl_out: &[String], model_out: &[String]) -> Option<usize> {
    let mut mi = 0;
    for (i, op) in ops.iter().enumerate() {
        if g.model_line(op).is_none() {
            continue;
        }
        let a = impl_out.get(i).map(|s| s.as_str()).unwrap_or("<missing>");
        let b = model_out.get(mi).map(|s| s.as_str()).unwrap_or("<missing>");
        if a != b {
            return Some(i);
        }
        mi += 1;
    }
    None
}

/// greedy one-op-removal shrinking while `pred` keeps holding
pub fn shrink(ops: &[String], pred: &mut dyn FnMut(&[String]) -> bool) -> Vec<String> {
    let mut cur: Vec<String> = ops.to_vec();
    let mut budget = 200usize;
    loop {
        let mut changed = false;
        let mut i = cur.len();
        while i > 0 {
            i -= 1;
            if budget == 0 {
                return cur;
            }
            budget -= 1;
            let mut cand = cur.clone();
            cand.remove(i);
            if cand.is_empty() {
                continue;
            }
            if pred(&cand) {
                cur = cand;
                changed = true;
            }
        }
        if !changed {
            return cur;
        }
    }
}

pub struct RunCfg {
    pub tier: Tier,
    pub seed: u64,
    pub model_bin: String,
    pub replay: Option<String>,
    pub cases_override: Option<usize>,
}

pub fn run_group(g: &dyn Group, cfg: &RunCfg) -> Report {
    let mut rep = Report::default();
    rep.property = g.property().into();
    rep.model = g.model().map(|s| s.into());
    rep.tier = if cfg.tier == Tier::Quick { "quick".into() } else { "thorough".into() };
    rep.seed = cfg.seed;
    rep.rule = g.rule().into();

    // silence the default panic hook: panics inside the implementation are results, not noise
    std::panic::set_hook(Box::new(|_| {}));

    let mut cases: Vec<Vec<String>> = Vec::new();
    if let Some(path) = &cfg.replay {
        let txt = std::fs::read_to_string(path).expect("replay file");
        let mut cur = Vec::new();
        for l in txt.lines() {
            let l = l.trim();
            if l.is_empty() || l.starts_with('#') {
                continue;
            }
            if l.starts_with("case ") {
                if !cur.is_empty() {
                    cases.push(std::mem::take(&mut cur));
                }
                continue;
            }
            cur.push(l.to_string());
        }
        if !cur.is_empty() {
            cases.push(cur);
        }
        rep.corpus_cases = cases.len();
    } else {
        cases = g.corpus();
        rep.corpus_cases = cases.len();
        let mut rng = Rng::new(cfg.seed);
        let n = cfg.cases_override.unwrap_or_else(|| g.budget(cfg.tier));
        for _ in 0..n {
            let mut r = rng.fork();
            let c = match catch_unwind(AssertUnwindSafe(|| g.gen_case(&mut r, cfg.tier))) {
                Ok(c) => c,
                Err(_) => vec!["gen-panic".to_string()],
            };
            cases.push(c);
        }
    }

    // execute on the implementation
    let mut outs = Vec::new();
    for c in &cases {
        let (o, panicked) = exec_guarded(g, c);
        if panicked {
            rep.impl_panics += 1;
        }
        outs.push(o);
    }
    // run the model on everything at once
    let model_outs = match model_outputs_for(g, &cfg.model_bin, &cases) {
        Ok(m) => m,
        Err(e) => {
            rep.extra.insert("model_error".into(), serde_json::Value::String(e));
            cases.iter().map(|_| vec![]).collect()
        }
    };
    let model_failed = rep.extra.contains_key("model_error");

    let mut seen = BTreeSet::new();
    let mut seen_nt = BTreeSet::new();
    for (i, c) in cases.iter().enumerate() {
        rep.cases += 1;
        rep.ops += c.len();
        *rep.case_len_hist.entry(c.len()).or_insert(0) += 1;
        for op in c {
            let k = op.split(' ').next().unwrap_or("").to_string();
            *rep.op_kinds.entry(k).or_insert(0) += 1;
        }
        for t in &outs[i].tags {
            *rep.tags.entry(t.clone()).or_insert(0) += 1;
        }
        let key = c.join("\n");
        if seen.insert(key.clone()) && outs[i].nontrivial {
            seen_nt.insert(key);
        }
        if rep.samples.len() < 3 && (outs[i].nontrivial || i + 1 == cases.len()) {
            rep.samples.push(serde_json::json!({
                "ops": c, "impl_out": outs[i].out,
                "model_out": model_outs.get(i).cloned().unwrap_or_default()}));
        }
        // monitors
        for v in &outs[i].violations {
            // keep (and shrink) at most 4 violations per kind and 60 in all, so that a frequent kind — e.g. a listed
            // known finding — cannot crowd a different, new kind out of the report
            if rep.violations.len() >= 60 {
                break;
            }
            if rep.violations.iter().filter(|w| w.kind == v.kind).count() >= 4 {
                continue;
            }
            let kind = v.kind.clone();
            let upto = (v.at + 1).min(c.len());
            let mut pred = |ops: &[String]| {
                let (o, panicked) = exec_guarded(g, ops);
                !panicked && o.violations.iter().any(|w| w.kind == kind)
            };
            let small = shrink(&c[..upto], &mut pred);
            let (o, _) = exec_guarded(g, &small);
            rep.violations.push(FoundViolation {
                case: i,
                kind: v.kind.clone(),
                desc: o
                    .violations
                    .iter()
                    .find(|w| w.kind == v.kind)
                    .map(|w| w.desc.clone())
                    .unwrap_or_else(|| v.desc.clone()),
                ops: small,
                impl_out: o.out,
            });
        }
        // correspondence
        if g.model().is_some() && !model_failed {
            if let Some(at) = first_mismatch(g, c, &outs[i].out, &model_outs[i]) {
                if rep.disagreements.len() < 10 {
                    let prefix = &c[..=at];
                    let mut pred = |ops: &[String]| {
                        let (o, panicked) = exec_guarded(g, ops);
                        if panicked {
                            return false; // a malformed shrunk case (e.g. missing setup op)
                        }
                        match model_outputs_for(g, &cfg.model_bin, &[ops.to_vec()]) {
                            Ok(m) => first_mismatch(g, ops, &o.out, &m[0]).is_some(),
                            Err(_) => false,
                        }
                    };
                    let small = shrink(prefix, &mut pred);
                    let (o, _) = exec_guarded(g, &small);
                    let m = model_outputs_for(g, &cfg.model_bin, &[small.clone()])
                        .map(|mut m| m.remove(0))
                        .unwrap_or_default();
                    if first_mismatch(g, &small, &o.out, &m).is_none() {
                        eprintln!("disagreement of case {} does not reproduce after shrinking; original ops {:?} impl {:?} model {:?}", i, c, outs[i].out, model_outs[i]);
                    }
                    let at2 = first_mismatch(g, &small, &o.out, &m).unwrap_or(0);
                    rep.disagreements.push(Disagreement {
                        case: i,
                        at: at2,
                        ops: small,
                        impl_out: o.out,
                        model_out: m,
                    });
                } else {
                    rep.disagreements.push(Disagreement {
                        case: i,
                        at,
                        ops: vec![],
                        impl_out: vec![],
                        model_out: vec![],
                    });
                }
            }
        }
    }
    rep.distinct_cases = seen.len();
    rep.distinct_nontrivial = seen_nt.len();
    let _ = std::panic::take_hook();
    rep
}
